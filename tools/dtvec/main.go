// Command dtvec runs the REAL datetime code of github.com/theory/sqljson
// (path/types and the datetime part of path/exec) over a grid of inputs and
// prints one line per test vector.  check.sh turns the lines into Coq
// checks of the Gallina model (coq/model/{Civil,GoTime,DateTime}.v).
//
// Line formats ('|' separated; strings are '.'-separated decimal bytes, the
// empty string is "e"; a datetime value is kind:sec:nsec:off with kind
// 0=date 1=time 2=timetz 3=timestamp 4=timestamptz, sec = Unix seconds of the
// instant, off = seconds east of UTC of its location):
//
//	N|now_sec|now_local_off
//	ZF|id|off                          fixed context zone
//	ZT|id|init_off|when:off,...        named zone exported as a transition table
//	P|zone|prec|src|res|str            types.ParseTime + String() of the result (res "-" = not parsed)
//	S|dt|str|json                      String() and MarshalJSON of a constructed value
//	U|kind|data|res                    UnmarshalJSON(data): res = dt | err | panic
//	C|target|zone|dt|res               the ToX casts (target 0..4)
//	X|usetz|zone|a|b|res               exec comparison: -1 0 1, 2 = incomparable (null), 3 = tz required
//	E|target|prec|usetz|zone|src|res   $.method(prec) on a string: dt | notrec | tzreq | badprec
//	Q|usetz|zone|srcA|srcB|res         $[0].datetime() < == > $[1].datetime() on two strings (res as for X)
//	                                   (target 5 = .datetime(); prec "n" = no argument)
//	R|zone|prec|src|res|str            as P, with src = String() of a constructed value (round trip; family of C18)
//
// Modes (see modes.go):
//
//	dtvec                              the grid vectors (what check.sh consumes)
//	dtvec vectors -seed N -extra M     the grid plus M pseudo-random vectors
//	dtvec revec -file F                recompute the vectors whose inputs are listed in F
//	dtvec props -prop C17|C18 -tier quick|thorough -seed N    property checks on the implementation's own outputs (props.go)
//	dtvec replay -file F               re-run one property check from a replay file
package main

import (
	"bufio"
	"context"
	"encoding/json"
	"fmt"
	"math/rand"
	"os"
	"strconv"
	"strings"
	"time"

	"github.com/theory/sqljson/path"
	"github.com/theory/sqljson/path/exec"
	"github.com/theory/sqljson/path/types"
)

var out = bufio.NewWriter(os.Stdout)

var counts = map[string]int{}

func emit(kind string, fields ...string) {
	counts[kind]++
	fmt.Fprintf(out, "%s|%s\n", kind, strings.Join(fields, "|"))
}

func enc(s string) string {
	if len(s) == 0 {
		return "e"
	}
	var b strings.Builder
	for i := 0; i < len(s); i++ {
		if i > 0 {
			b.WriteByte('.')
		}
		b.WriteString(strconv.Itoa(int(s[i])))
	}
	return b.String()
}

func kindOf(v types.DateTime) int {
	switch v.(type) {
	case *types.Date:
		return 0
	case *types.Time:
		return 1
	case *types.TimeTZ:
		return 2
	case *types.Timestamp:
		return 3
	case *types.TimestampTZ:
		return 4
	}
	panic(fmt.Sprintf("unknown kind %T", v))
}

func encDT(v types.DateTime) string {
	t := v.GoTime()
	_, off := t.Zone()
	return fmt.Sprintf("%d:%d:%d:%d", kindOf(v), t.Unix(), t.Nanosecond(), off)
}

// ---------------------------------------------------------------- zones

type zoneDef struct {
	id    string
	loc   *time.Location
	fixed bool
	// valid range of Unix seconds for which the exported table is exact
	maxUnix int64
}

func exportTable(id string, loc *time.Location) {
	// Probe Time.Zone day by day from year 1 to 2100, then bisect each change
	// to the second.
	start := time.Date(1, 1, 1, 0, 0, 0, 0, time.UTC).Unix()
	end := time.Date(2100, 1, 1, 0, 0, 0, 0, time.UTC).Unix()
	offAt := func(u int64) int {
		_, o := time.Unix(u, 0).In(loc).Zone()
		return o
	}
	init := offAt(start)
	var trans []string
	cur := init
	const step = 86400
	for u := start; u < end; u += step {
		nxt := u + step
		o := offAt(nxt)
		if o == cur {
			continue
		}
		// there may be more than one change inside the day: bisect repeatedly
		lo := u
		for lo < nxt {
			if offAt(nxt) == cur {
				break
			}
			// smallest x in (lo, nxt] with offAt(x) != cur
			a, b := lo, nxt
			// refine b to the first differing second by scanning coarse then bisecting
			for x := lo + 1800; x < nxt; x += 1800 {
				if offAt(x) != cur {
					b = x
					break
				}
				a = x
			}
			for b-a > 1 {
				m := a + (b-a)/2
				if offAt(m) != cur {
					b = m
				} else {
					a = m
				}
			}
			cur = offAt(b)
			trans = append(trans, fmt.Sprintf("%d:%d", b, cur))
			lo = b
		}
	}
	emit("ZT", id, strconv.Itoa(init), strings.Join(trans, ","))
}

var zones []zoneDef

func setupZones() {
	add := func(id string, loc *time.Location, fixed bool) {
		zones = append(zones, zoneDef{id: id, loc: loc, fixed: fixed,
			maxUnix: time.Date(2099, 1, 1, 0, 0, 0, 0, time.UTC).Unix()})
	}
	add("utc", time.UTC, true)
	add("p0530", time.FixedZone("", 5*3600+30*60), true)
	add("m0800", time.FixedZone("", -8*3600), true)
	add("p1400", time.FixedZone("", 14*3600), true)
	add("m000030", time.FixedZone("", -30), true)
	ny, err := time.LoadLocation("America/New_York")
	if err != nil {
		panic(err)
	}
	lh, err := time.LoadLocation("Australia/Lord_Howe")
	if err != nil {
		panic(err)
	}
	apia, err := time.LoadLocation("Pacific/Apia") // skipped 2011-12-30 entirely
	if err != nil {
		panic(err)
	}
	add("ny", ny, false)
	add("lh", lh, false)
	add("apia", apia, false)
	for _, z := range zones {
		if z.fixed {
			_, off := time.Unix(0, 0).In(z.loc).Zone()
			emit("ZF", z.id, strconv.Itoa(off))
		} else {
			exportTable(z.id, z.loc)
		}
	}
}

func ctxFor(z zoneDef) context.Context {
	return types.ContextWithTZ(context.Background(), z.loc)
}

// named zones are exact only below year 2099 (beyond the table Go uses the
// TZ extend string); keep vectors whose instants stay within the table.
func inRange(z zoneDef, ts ...time.Time) bool {
	if z.fixed {
		return true
	}
	for _, t := range ts {
		if t.Unix() > z.maxUnix-2*86400 {
			return false
		}
	}
	return true
}

// ---------------------------------------------------------------- grid

type off struct {
	secs int
	// textual forms; "" when the form cannot express the offset
	short, colon, colonsec string
}

func mkOff(secs int) off {
	sign := "+"
	a := secs
	if secs < 0 {
		sign = "-"
		a = -secs
	}
	h, m, s := a/3600, a/60%60, a%60
	o := off{secs: secs}
	o.colonsec = fmt.Sprintf("%s%02d:%02d:%02d", sign, h, m, s)
	if s == 0 {
		o.colon = fmt.Sprintf("%s%02d:%02d", sign, h, m)
		if m == 0 {
			o.short = fmt.Sprintf("%s%02d", sign, h)
		}
	}
	return o
}

var offsets = []off{
	mkOff(-12 * 3600), mkOff(-11 * 3600), mkOff(-(9*3600 + 1800)), mkOff(-8 * 3600),
	mkOff(-5 * 3600), mkOff(-(3*3600 + 1800)), mkOff(-3600), mkOff(0), mkOff(3600),
	mkOff(3*3600 + 1800), mkOff(5*3600 + 1800), mkOff(5*3600 + 2700), mkOff(8*3600 + 2700),
	mkOff(9*3600 + 1800), mkOff(10*3600 + 1800), mkOff(12*3600 + 2700), mkOff(13 * 3600),
	mkOff(14 * 3600),
}

// offsets with seconds (String()/JSON lose them)
var oddOffsets = []off{mkOff(30), mkOff(-30), mkOff(-(4*3600 + 56*60 + 2)), mkOff(3600 + 61), mkOff(-1), mkOff(1), mkOff(-59), mkOff(-60), mkOff(-61)}

type inst struct{ date, clock string }

var instants = []inst{
	{"0000-01-01", "00:00:00"},
	{"0001-01-01", "00:00:00"},
	{"1969-12-31", "23:59:59"},
	{"1970-01-01", "00:00:00"},
	{"1900-02-28", "23:59:59"},
	{"2000-02-29", "12:00:00"},
	{"9999-12-31", "23:59:59"},
	{"2021-03-14", "02:30:00"}, // New York spring-forward gap
	{"2021-11-07", "01:30:00"}, // New York fall-back overlap
	{"2021-10-03", "02:15:00"}, // Lord Howe gap (02:00 -> 02:30)
	{"2021-04-04", "01:45:00"}, // Lord Howe overlap (02:00 -> 01:30)
	{"2023-08-15", "12:34:56"},
	{"1883-11-18", "12:00:00"}, // New York LMT -> EST
	{"2011-12-30", "00:00:00"}, // the day Pacific/Apia skipped
	{"2011-12-31", "00:00:00"},
}

var fracs = []string{
	"", ".5", ".50", ".499", ".4999", ".99999", ".999999", ".9999995", ".99999999",
	".999999999", ".1234567891", ".000000001", ".0000005", ".0000004999", ",5", ".123456",
}

var precs = []int{-1, 0, 1, 2, 3, 4, 5, 6, 7}

func encRes(v types.DateTime, ok bool) (string, string) {
	if !ok {
		return "-", "e"
	}
	return encDT(v), enc(v.String())
}

func parseVec(z zoneDef, src string, prec int) { parseVecK("P", z, src, prec) }

func parseVecK(kind string, z zoneDef, src string, prec int) {
	var res, str string
	func() {
		defer func() {
			if r := recover(); r != nil {
				res, str = "panic", "e"
			}
		}()
		v, ok := types.ParseTime(ctxFor(z), src, prec)
		res, str = encRes(v, ok)
	}()
	emit(kind, z.id, strconv.Itoa(prec), enc(src), res, str)
}

func genParse() {
	utc := zones[0]
	// 1. full precision sweep: time and timestamp shapes
	for _, in := range instants {
		for _, f := range fracs {
			for _, p := range precs {
				parseVec(utc, in.clock+f, p)
				parseVec(utc, in.date+"T"+in.clock+f, p)
			}
			parseVec(utc, in.date+" "+in.clock+f, -1)
			parseVec(utc, in.date+" "+in.clock+f, 3)
		}
		parseVec(utc, in.date, -1)
		parseVec(utc, in.date, 3)
	}
	// 2. zone-aware shapes: offsets x instants x some fracs x some precisions
	zf := []string{"", ".5", ".9999995", ".999999999", ".1234567891", ",25"}
	zp := []int{-1, 0, 3, 6, 7}
	for oi, o := range offsets {
		for ii, in := range instants {
			for fi, f := range zf {
				for pi, p := range zp {
					// thin the grid deterministically
					if (oi+ii+fi+pi)%5 != 0 && !(p == -1 && f == "") {
						continue
					}
					forms := []string{o.colon}
					if o.short != "" {
						forms = append(forms, o.short)
					}
					for _, zs := range forms {
						parseVec(utc, in.clock+f+zs, p)
						parseVec(utc, in.date+"T"+in.clock+f+zs, p)
						if (oi+ii)%2 == 0 {
							parseVec(utc, in.date+" "+in.clock+f+zs, p)
						}
					}
				}
			}
		}
		// the Z07:00:00 form is not in the ParseTime cascade
		parseVec(utc, "12:34:56"+o.colonsec, -1)
	}
	for _, in := range instants {
		parseVec(utc, in.clock+"Z", -1)
		parseVec(utc, in.date+"T"+in.clock+".5Z", 0)
		parseVec(utc, in.date+" "+in.clock+"Z", -1)
	}
	// 3. other context zones do not change ParseTime
	for _, z := range zones[1:] {
		for _, s := range []string{"2021-03-14", "12:34:56.789", "12:34:56.789+05:30", "2021-03-14T02:30:00.5", "2021-03-14T02:30:00.5-05", "2021-11-07 01:30:00+00:00"} {
			parseVec(z, s, -1)
			parseVec(z, s, 2)
		}
	}
	// 4. malformed / lenient inputs
	bad := []string{
		"", " ", "24:00:00", "23:60:00", "23:59:60", "2023-02-30", "2023-02-29", "2024-02-29", "1900-02-29",
		"2000-02-29", "2023-04-31", "2023-13-01", "2023-00-10", "2023-01-00", "2023-01-32",
		"1:02:03", "01:2:03", "01:02:3", "1:02:03+01", "1:02:03.5Z",
		"12:34:56+1", "12:34:56 +01", "12:34:56+01 ", "12:34:56+0100", "12:34:56+01:0", "12:34:56+01:00:00",
		"2023-1-02", "2023-01-2", "23-01-02", "02023-01-02", "+2023-01-02", "-2023-01-02", "2023/01/02",
		"12:34:56z", "2023-01-02t03:04:05", "2023-01-02T03:04:05z", "12:34:56Z ", "12:34:56ZZ", "12:34:56Z+01",
		"12:34:56+05:60", "12:34:56+05:61", "12:34:56+24:00", "12:34:56+24", "12:34:56+25", "12:34:56-24:60",
		"12:34:56+24:60", "12:34:56-00", "12:34:56-00:00", "12:34:56+00", "12:34:56+00:00", "12:34:56+ab",
		"12:34:56*01", "12:34:56+1a", "12:34:56+01:a0", "12:34:56+01-00",
		"2023-01-02  03:04:05", "2023-01-02   03:04:05", "2023-01-02 T03:04:05", "2023-01-02 ", "2023-01-02T",
		"2023-01-02  03:04:05+01", "2023-01-02\t03:04:05", "2023-01-0203:04:05", "2023-01-02  ",
		"12:34:56,5", "12:34:56,", "12:34:56.", "12:34:56.+01", "12:34:56,5+01:00", "12:34:56.5.5", "12:34:56.5,5",
		"12:34:56.12345678901234567890", "12:34:56.0000000009", "12:34:56.9999999999", "12:34:56.00000000001+01",
		"2023-01-02T03:04:05.12345678901234567890", "2023-01-02T03:04:05.12345678901234567890+05:30",
		"12:34:56 junk", "12:34:56junk", "2023-01-02junk", "2023-01-02T03:04:05junk", "2023-01-02T03:04:05+01junk",
		"2023-01-02T03:04:05+01:00junk", " 12:34:56", " 2023-01-02", " 2023-01-02T03:04:05", "12:34:56 ",
		"2023-01-02T03:04:05 ", "2023-01-02T03:04:05 +01", "2023-01-02T03:04:05 +01:00",
		"2023-01-02T3:04:05", "2023-01-02 3:04:05", "2023-01-02T3:04:05Z", "2023-01-02T3:04:05+01:00", "2023-01-02T24:00:00",
		"2023-01-02T03:04", "03:04", "03", "2023-01", "2023", "20230102", "030405", "2023-01-02T030405",
		"9999-12-31T23:59:59.9999995", "9999-12-31T23:59:59.9999995+00", "0000-01-01T00:00:00-01",
		"0000-01-01", "0000-00-00", "0000-02-29", "0000-02-30", "0100-02-29", "0400-02-29",
		"12:34:56+05:30:15", "2023-01-02T03:04:05+05:30:15", "12:34:56-00:00:01",
		"１２:34:56", "12:34:56\x00", "\x0012:34:56", "12:34:56+\xff1", "2023-01-02T03:04:05\xe2\x80\x8b",
		"12:34:56+05:3", "12:34:56+5:30", "12:34:56+053", "12:34:56+05:30Z", "2023-01-02T03:04:05+05:", "12:34:56+",
		"12:34:56-", "12:34:56Z07", "00:00:00", "23:59:59.999999999", "00:00:00.000000000", "00:00:00.0",
		"2023-01-02T03:04:05.000", "2023-01-02T03:04:05.000+00:00", "2023-01-02T03:04:05.100Z",
	}
	for _, s := range bad {
		parseVec(utc, s, -1)
		parseVec(utc, s, 0)
		parseVec(utc, s, 6)
	}
	// 5. precisions outside 0..7
	for _, p := range []int{8, 9, 10, 11, 18, 19, 20, 100, 308, 309, 400, -2, -100} {
		parseVec(utc, "12:34:56.987654321", p)
		parseVec(utc, "2023-08-15T12:34:56.987654321+05:30", p)
	}
}

// ---------------------------------------------------------------- values

// values builds stored values of the five kinds through the constructors.
func values() []types.DateTime {
	var vs []types.DateTime
	ctx := context.Background()
	add := func(t time.Time) {
		vs = append(vs, types.NewDate(t), types.NewTime(t), types.NewTimeTZ(t),
			types.NewTimestamp(t), types.NewTimestampTZ(ctx, t))
	}
	nanos := []int{0, 1, 500000000, 999999999, 123456000, 120000000, 999999000, 10}
	i := 0
	for _, in := range instants {
		base, err := time.Parse("2006-01-02 15:04:05", in.date+" "+in.clock)
		if err != nil {
			panic(err)
		}
		for _, o := range offsets {
			i++
			t := time.Date(base.Year(), base.Month(), base.Day(), base.Hour(), base.Minute(), base.Second(),
				nanos[i%len(nanos)], time.FixedZone("", o.secs))
			add(t)
		}
		for _, o := range oddOffsets {
			i++
			t := time.Date(base.Year(), base.Month(), base.Day(), base.Hour(), base.Minute(), base.Second(),
				nanos[i%len(nanos)], time.FixedZone("", o.secs))
			add(t)
		}
	}
	// negative and five-digit years
	for _, t := range []time.Time{
		time.Date(-1, 12, 31, 23, 59, 59, 0, time.UTC),
		time.Date(-400, 2, 29, 1, 2, 3, 4, time.FixedZone("", 3600)),
		time.Date(10000, 1, 1, 0, 0, 0, 0, time.UTC),
		time.Date(12345, 6, 7, 8, 9, 10, 110000000, time.FixedZone("", -3600)),
		time.Date(0, 1, 1, 0, 0, 0, 0, time.FixedZone("", 14*3600)),
	} {
		add(t)
	}
	return vs
}

func dedup(vs []types.DateTime) []types.DateTime {
	seen := map[string]bool{}
	var r []types.DateTime
	for _, v := range vs {
		k := encDT(v)
		if !seen[k] {
			seen[k] = true
			r = append(r, v)
		}
	}
	return r
}

func unmarshalVec(kind int, data []byte) {
	var res string
	func() {
		defer func() {
			if r := recover(); r != nil {
				res = "panic"
			}
		}()
		var v types.DateTime
		var err error
		switch kind {
		case 0:
			x := &types.Date{}
			err = x.UnmarshalJSON(data)
			v = x
		case 1:
			x := &types.Time{}
			err = x.UnmarshalJSON(data)
			v = x
		case 2:
			x := &types.TimeTZ{}
			err = x.UnmarshalJSON(data)
			v = x
		case 3:
			x := &types.Timestamp{}
			err = x.UnmarshalJSON(data)
			v = x
		case 4:
			x := &types.TimestampTZ{}
			err = x.UnmarshalJSON(data)
			v = x
		}
		if err != nil {
			res = "err"
		} else {
			res = encDT(v)
		}
	}()
	emit("U", strconv.Itoa(kind), enc(string(data)), res)
}

func genValues(vs []types.DateTime) {
	for _, v := range vs {
		b, err := json.Marshal(v)
		if err != nil {
			panic(err)
		}
		emit("S", encDT(v), enc(v.String()), enc(string(b)))
		unmarshalVec(kindOf(v), b)
		parseVecK("R", zones[0], v.String(), -1)
	}
}

func genHostile() {
	hostile := []string{
		``, `"`, `""`, `"""`, `1`, `12`, `null`, `true`, `{}`, `[]`, `"1`, `1"`, `"1"`, `-`, `+`, `"-"`, `"+"`,
		`123456789`, `-12345678`, `+12345678`, `1234-12345678`, `"-12345678"`, `"+12345678"`,
		`-12345`, `+12345`, `"-12345"`, `"+12345"`, `12345`, `"12345"`, `12345678`, `"12345678"`,
		`"12:34:56"`, `"12:34:56Z"`, `"12:34:56+01"`, `"12:34:56-01"`, `"12:34:56+01:00"`, `"12:34:56+01:00:00"`,
		`"12:34:56-00:00:01"`, `"12:34:56+00:00:01"`, `"12:34:56.5+01:00:00"`, `"1:02:03+01"`, `"1:02:03"`,
		`12:34:56`, `12:34:56+01:00`, `"12:34:56+01:00`, `12:34:56+01:00"`, `'12:34:56'`,
		`"2023-01-02"`, `2023-01-02`, `"2023-01-02T03:04:05"`, `"2023-01-02 03:04:05"`, `"2023-01-02T03:04:05Z"`,
		`"2023-01-02T03:04:05+01"`, `"2023-01-02T03:04:05+01:00"`, `"2023-01-02T03:04:05-01:00:00"`,
		`"2023-01-02T03:04:05.123456789+05:45"`, `"2023-01-02T03:04:05,5+05:45"`, `"2023-01-02T3:04:05+05:45"`,
		`"2023-01-02T03:04:05+24:00"`, `"2023-01-02T03:04:05+24:60"`, `"2023-01-02T03:04:05+25:00"`,
		`"2023-01-02T03:04:05z"`, `"2023-02-30"`, `"2023-02-30T00:00:00"`, `"0000-01-01"`, `"9999-12-31T23:59:59.999999999"`,
		`"10000-01-01T00:00:00"`, `"-0001-12-31"`, `"24:00:00"`, `"23:59:60"`, `"12:34:56.1234567891"`,
		`"12:34:56"`, `"12:34:56\n"`, ` "12:34:56"`, `"12:34:56" `, `"12:34:56""`, `""12:34:56"`,
		"\"12:34:56\x00\"", "\xff\xfe", "\"\xff\"", `"--:--:--"`, `"+-+-+-+-+-"`, `"---------"`, `"+++++++++"`, `"------"`,
		`"2023-01-02T03:04:05+"`, `"2023-01-02T03:04:05-"`, `"T"`, `"Z"`, `"+01"`, `"-01:00"`, `"+01:00:00"`,
	}
	// all strings of length <= 3 over a small alphabet
	alpha := []byte{'"', '+', '-', '1', 'Z', ':'}
	var rec func(prefix []byte, n int)
	rec = func(prefix []byte, n int) {
		hostile = append(hostile, string(prefix))
		if n == 0 {
			return
		}
		for _, c := range alpha {
			rec(append(append([]byte{}, prefix...), c), n-1)
		}
	}
	rec(nil, 3)
	// pseudo-random strings over the datetime alphabet, fixed seed
	r := rand.New(rand.NewSource(20260925))
	chars := []byte(`"0123456789:+-TZ., `)
	for i := 0; i < 260; i++ {
		n := r.Intn(34)
		b := make([]byte, n)
		for j := range b {
			b[j] = chars[r.Intn(len(chars))]
		}
		if i%2 == 0 && n >= 2 {
			b[0], b[n-1] = '"', '"'
		}
		hostile = append(hostile, string(b))
	}
	// mutations of valid values: put a sign at the probe positions
	for _, base := range []string{`"12:34:56.123+05:30"`, `"2023-01-02T03:04:05.123+05:30"`, `"12:34:56"`, `"2023-01-02T03:04:05"`} {
		for pos := 1; pos < len(base)-1; pos++ {
			for _, c := range []byte{'+', '-'} {
				b := []byte(base)
				b[pos] = c
				hostile = append(hostile, string(b))
			}
		}
		for cut := 0; cut < len(base); cut++ {
			hostile = append(hostile, base[:cut])
		}
	}
	seen := map[string]bool{}
	for _, h := range hostile {
		if seen[h] {
			continue
		}
		seen[h] = true
		for k := 0; k < 5; k++ {
			// thin the exhaustive part for the non-TZ kinds
			if len(h) <= 3 && (k == 0 || k == 1 || k == 3) && len(h) == 3 && h[0] != '"' {
				continue
			}
			unmarshalVec(k, []byte(h))
		}
	}
}

// ---------------------------------------------------------------- casts

func castVec(z zoneDef, v types.DateTime) {
	ctx := ctxFor(z)
	e := func(target int, r types.DateTime) {
		if !inRange(z, v.GoTime(), r.GoTime()) {
			return
		}
		emit("C", strconv.Itoa(target), z.id, encDT(v), encDT(r))
	}
	switch x := v.(type) {
	case *types.Date:
		e(3, x.ToTimestamp(ctx))
		e(4, x.ToTimestampTZ(ctx))
	case *types.Time:
		// Time.ToTimeTZ reads time.Now(): only meaningful to compare for
		// fixed-offset zones, where the date does not matter.
		if z.fixed {
			e(2, x.ToTimeTZ(ctx))
		}
	case *types.TimeTZ:
		e(1, x.ToTime(ctx))
	case *types.Timestamp:
		e(0, x.ToDate(ctx))
		e(1, x.ToTime(ctx))
		e(4, x.ToTimestampTZ(ctx))
	case *types.TimestampTZ:
		e(0, x.ToDate(ctx))
		e(1, x.ToTime(ctx))
		e(2, x.ToTimeTZ(ctx))
		e(3, x.ToTimestamp(ctx))
	}
}

func genCasts(vs []types.DateTime) {
	for i, v := range vs {
		for zi, z := range zones {
			// all values against utc, ny, lh; a third of them against the rest
			if ((z.id == "utc" || z.id == "ny" || z.id == "lh") && i%2 == 0) || (i+zi)%5 == 0 {
				castVec(z, v)
			}
		}
	}
	// wall-clock readings around every DST transition 2019..2023 in the named zones
	for _, z := range zones {
		if z.fixed {
			continue
		}
		for y := 2020; y <= 2021; y++ {
			for d := 0; d < 366; d++ {
				day := time.Date(y, 1, 1, 0, 0, 0, 0, time.UTC).AddDate(0, 0, d)
				_, o1 := day.In(z.loc).Zone()
				_, o2 := day.Add(24 * time.Hour).In(z.loc).Zone()
				if o1 == o2 {
					continue
				}
				// every 15 minutes of the two surrounding days, as timestamp and tstz
				for m := -24 * 60; m < 48*60; m += 15 {
					t := day.Add(time.Duration(m) * time.Minute)
					if m%120 == 0 || (m > 22*60 && m < 30*60) {
						castVec(z, types.NewTimestamp(t))
						castVec(z, types.NewTimestampTZ(context.Background(), t))
					}
				}
				castVec(z, types.NewDate(day))
				castVec(z, types.NewDate(day.Add(24*time.Hour)))
			}
		}
	}
}

// ---------------------------------------------------------------- exec

var (
	pLT = path.MustParse(`$[0] < $[1]`)
	pEQ = path.MustParse(`$[0] == $[1]`)
	pGT = path.MustParse(`$[0] > $[1]`)
	sLT = path.MustParse(`$[0].datetime() < $[1].datetime()`)
	sEQ = path.MustParse(`$[0].datetime() == $[1].datetime()`)
	sGT = path.MustParse(`$[0].datetime() > $[1].datetime()`)
)

func q1(p *path.Path, ctx context.Context, doc any, opts []exec.Option) (any, error) {
	r, err := p.Query(ctx, doc, opts...)
	if err != nil {
		return nil, err
	}
	if len(r) != 1 {
		return nil, fmt.Errorf("expected one result, got %v", r)
	}
	return r[0], nil
}

func classify(err error) string {
	msg := err.Error()
	switch {
	case strings.Contains(msg, "without time zone usage"):
		return "tzreq"
	case strings.Contains(msg, "format is not recognized"):
		return "notrec"
	case strings.Contains(msg, "time precision"):
		return "badprec"
	}
	return "other:" + msg
}

func cmpVec(z zoneDef, useTZ bool, a, b types.DateTime) {
	u := "0"
	if useTZ {
		u = "1"
	}
	emit("X", u, z.id, encDT(a), encDT(b), cmp3(z, useTZ, []any{a, b}, pLT, pEQ, pGT))
}

func cmpStrVec(z zoneDef, useTZ bool, a, b string) {
	u := "0"
	if useTZ {
		u = "1"
	}
	emit("Q", u, z.id, enc(a), enc(b), cmp3(z, useTZ, []any{a, b}, sLT, sEQ, sGT))
}

func cmp3(z zoneDef, useTZ bool, doc any, pLT, pEQ, pGT *path.Path) string {
	ctx := ctxFor(z)
	var opts []exec.Option
	if useTZ {
		opts = append(opts, exec.WithTZ())
	}
	lt, e1 := q1(pLT, ctx, doc, opts)
	eq, e2 := q1(pEQ, ctx, doc, opts)
	gt, e3 := q1(pGT, ctx, doc, opts)
	var res string
	switch {
	case e1 != nil || e2 != nil || e3 != nil:
		if e1 == nil || e2 == nil || e3 == nil {
			fmt.Fprintf(os.Stderr, "inconsistent errors: %v %v %v\n", e1, e2, e3)
			return "bad"
		}
		c := classify(e1)
		if c != "tzreq" {
			fmt.Fprintf(os.Stderr, "unexpected error %s\n", c)
			return "bad"
		}
		res = "3"
	case lt == nil && eq == nil && gt == nil:
		res = "2"
	case lt == true && eq == false && gt == false:
		res = "-1"
	case lt == false && eq == true && gt == false:
		res = "0"
	case lt == false && eq == false && gt == true:
		res = "1"
	default:
		fmt.Fprintf(os.Stderr, "inconsistent comparison %v %v %v\n", lt, eq, gt)
		return "bad"
	}
	return res
}

func genCompare(vs []types.DateTime) {
	// a manageable subset of values: every 7th plus hand-picked neighbours
	var sub []types.DateTime
	for i, v := range vs {
		if i%19 == 0 {
			sub = append(sub, v)
		}
	}
	ctx := context.Background()
	mk := func(s string) time.Time {
		t, err := time.Parse(time.RFC3339Nano, s)
		if err != nil {
			panic(err)
		}
		return t
	}
	near := []types.DateTime{
		types.NewDate(mk("2021-03-14T00:00:00Z")), types.NewDate(mk("2021-11-07T00:00:00Z")), types.NewDate(mk("2015-08-02T00:00:00Z")),
		types.NewTimestamp(mk("2021-03-14T02:30:00Z")), types.NewTimestamp(mk("2021-03-14T03:30:00Z")),
		types.NewTimestamp(mk("2021-11-07T01:30:00Z")), types.NewTimestamp(mk("2021-11-07T00:30:00Z")),
		types.NewTimestamp(mk("2015-08-02T00:00:00Z")),
		types.NewTimestampTZ(ctx, mk("2021-03-14T02:30:00-05:00")), types.NewTimestampTZ(ctx, mk("2021-03-14T07:30:00Z")),
		types.NewTimestampTZ(ctx, mk("2021-11-07T01:30:00-04:00")), types.NewTimestampTZ(ctx, mk("2021-11-07T01:30:00-05:00")),
		types.NewTimestampTZ(ctx, mk("2015-08-02T00:00:00-04:00")), types.NewTimestampTZ(ctx, mk("2015-08-02T04:00:00Z")),
		types.NewTimestampTZ(ctx, mk("2015-08-01T18:30:00Z")), types.NewTimestampTZ(ctx, mk("2015-08-02T08:00:00+08:00")),
		types.NewTime(mk("2000-01-01T12:00:00Z")), types.NewTime(mk("2000-01-01T12:00:00.000000001Z")),
		types.NewTimeTZ(mk("2000-01-01T12:00:00Z")), types.NewTimeTZ(mk("2000-01-01T13:00:00+01:00")),
		types.NewTimeTZ(mk("2000-01-01T11:00:00-01:00")), types.NewTimeTZ(mk("2000-01-01T17:30:00+05:30")),
		types.NewTimeTZ(mk("2000-01-01T04:00:00-08:00")), types.NewTimeTZ(mk("2000-01-01T12:00:00+05:30")),
		types.NewTimeTZ(mk("2000-01-01T12:00:00-08:00")), types.NewTimeTZ(mk("2000-01-01T00:00:00+14:00")),
		types.NewTimeTZ(mk("2000-01-01T23:59:59.999999999-12:00")),
	}
	all := append(append([]types.DateTime{}, near...), sub...)
	n := 0
	for i, a := range all {
		for j, b := range all {
			ka, kb := kindOf(a), kindOf(b)
			timeLike := func(k int) bool { return k == 1 || k == 2 }
			if timeLike(ka) != timeLike(kb) {
				// incomparable families: a few suffice
				if (i+j)%17 != 0 {
					continue
				}
			} else if i >= len(near) && j >= len(near) && (i*31+j)%3 != 0 {
				continue
			}
			for zi, z := range zones {
				hasTime := ka == 1 || kb == 1
				mixed := (ka == 1) != (kb == 1) // Time vs TimeTZ goes through ToTimeTZ(now)
				if hasTime && mixed && !z.fixed {
					continue
				}
				if !inRange(z, a.GoTime(), b.GoTime()) {
					continue
				}
				if i >= len(near) && j >= len(near) && (n+zi)%3 != 0 {
					continue
				}
				cmpVec(z, true, a, b)
				if zi == 0 || (i+j)%4 == 0 {
					cmpVec(z, false, a, b)
				}
			}
			n++
		}
	}
}

var methods = []string{"date", "time", "time_tz", "timestamp", "timestamp_tz", "datetime"}

func execVec(z zoneDef, target int, prec string, useTZ bool, src string) {
	ctx := ctxFor(z)
	var opts []exec.Option
	if useTZ {
		opts = append(opts, exec.WithTZ())
	}
	arg := ""
	if prec != "n" {
		arg = prec
	}
	p, err := path.Parse(fmt.Sprintf("$.%s(%s)", methods[target], arg))
	if err != nil {
		// e.g. .date(3) is a syntax error; nothing to compare
		return
	}
	var res string
	r, err := p.Query(ctx, src, opts...)
	switch {
	case err != nil:
		res = classify(err)
		if strings.HasPrefix(res, "other:") {
			fmt.Fprintln(os.Stderr, res)
			res = "bad"
		}
	case len(r) == 1:
		v, ok := r[0].(types.DateTime)
		if !ok {
			fmt.Fprintf(os.Stderr, "not a datetime: %T\n", r[0])
			res = "bad"
			break
		}
		if !inRange(z, v.GoTime()) {
			return
		}
		res = encDT(v)
	default:
		fmt.Fprintln(os.Stderr, "unexpected result length")
		res = "bad"
	}
	u := "0"
	if useTZ {
		u = "1"
	}
	emit("E", strconv.Itoa(target), prec, u, z.id, enc(src), res)
}

func genExec() {
	srcs := []string{
		"2023-08-15", "12:34:56.987654321", "12:34:56.5+05:30", "12:34:56-08", "23:59:59.9999995", "23:59:59.9999995+14:00",
		"2023-08-15T12:34:56.987654321", "2023-08-15 12:34:56.5+05:30", "2023-08-15T12:34:56Z", "2021-03-14T02:30:00",
		"2021-11-07T01:30:00", "2021-03-14T07:30:00+00", "2021-10-03T02:15:00", "2021-04-04T01:45:00", "2021-04-03T15:15:00Z",
		"1969-12-31T23:59:59.999999999", "0001-01-01", "0001-01-01T00:00:00Z", "2023-12-31T23:59:59.9999995-01:00", "nope", "24:00:00",
	}
	precsE := []string{"n", "0", "1", "3", "6", "7", "12"}
	for si, s := range srcs {
		for t := 0; t < 6; t++ {
			for pi, pr := range precsE {
				for zi, z := range zones {
					if (si+t+pi+zi)%2 != 0 && !(pr == "n" && zi < 2) {
						continue
					}
					// Time -> TimeTZ depends on time.Now(): fixed zones only
					if !z.fixed && t == 2 {
						continue
					}
					execVec(z, t, pr, true, s)
					if zi%2 == 0 {
						execVec(z, t, pr, false, s)
					}
				}
			}
		}
	}
	// a negative precision cannot be written in a path literal? try it
	execVec(zones[0], 1, "-1", true, "12:34:56.5")
	// string comparison queries through .datetime(), with and without WithTZ
	strs := []string{
		"2015-08-02", "2015-08-01", "2021-03-14", "2021-11-07",
		"2015-08-02T00:00:00", "2021-03-14T02:30:00", "2021-11-07T01:30:00", "2015-08-01T23:59:59.999999999",
		"2021-03-14T01:45:00", "2021-03-14T06:40:00Z", "2011-12-30", "2011-12-30T10:00:00Z",
		"2015-08-02T00:00:00-04:00", "2015-08-02T04:00:00Z", "2015-08-02T00:00:00+00", "2021-03-14T07:30:00Z",
		"2021-11-07T05:30:00Z", "2021-11-07T06:30:00Z", "2015-08-01T18:30:00+00:00", "2015-08-02 05:30:00+05:30",
		"12:00:00", "12:00:00.000000001", "12:00:00Z", "13:00:00+01", "11:00:00-01:00", "17:30:00+05:30", "04:00:00-08",
	}
	for i, a := range strs {
		for j, b := range strs {
			for zi, z := range zones {
				ta, _ := types.ParseTime(context.Background(), a, -1)
				tb, _ := types.ParseTime(context.Background(), b, -1)
				ka, kb := kindOf(ta), kindOf(tb)
				if (ka == 1) != (kb == 1) && (ka == 1 || kb == 1) && !z.fixed {
					continue // Time vs TimeTZ reads time.Now()
				}
				if (i+j+zi)%2 == 0 {
					cmpStrVec(z, true, a, b)
				}
				if (i+j+zi)%5 == 0 {
					cmpStrVec(z, false, a, b)
				}
			}
		}
	}
}

func genGrid() {
	genParse()
	vs := dedup(values())
	genValues(vs)
	genHostile()
	genCasts(vs)
	genCompare(vs)
	genExec()
}

func header() {
	now := time.Now()
	_, loff := now.Zone()
	emit("N", strconv.FormatInt(now.Unix(), 10), strconv.Itoa(loff))
	setupZones()
}

func footer() {
	out.Flush()
	keys := []string{"N", "ZF", "ZT", "P", "S", "U", "C", "X", "E", "Q", "R"}
	total := 0
	for _, k := range keys {
		fmt.Fprintf(os.Stderr, "%s=%d ", k, counts[k])
		if k != "N" && k != "ZF" && k != "ZT" {
			total += counts[k]
		}
	}
	fmt.Fprintf(os.Stderr, "total=%d\n", total)
}
