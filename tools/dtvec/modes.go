// Modes of the dtvec command other than the fixed grid: pseudo-random extra
// vectors, recomputation of single vectors (for replays of a broken
// model/implementation correspondence) and the dispatch to the property
// checks of props.go.
package main

import (
	"bufio"
	"context"
	"encoding/json"
	"flag"
	"fmt"
	"math/rand"
	"os"
	"strconv"
	"strings"
	"time"

	"github.com/theory/sqljson/path/types"
)

func main() {
	mode := ""
	args := os.Args[1:]
	if len(args) > 0 {
		mode, args = args[0], args[1:]
	}
	switch mode {
	case "", "vectors":
		fs := flag.NewFlagSet("vectors", flag.ExitOnError)
		seed := fs.Int64("seed", 1, "PRNG seed of the extra vectors")
		extra := fs.Int("extra", 0, "number of pseudo-random extra vectors")
		_ = fs.Parse(args)
		header()
		genGrid()
		if *extra > 0 {
			genRandom(*extra, *seed)
		}
		footer()
	case "revec":
		fs := flag.NewFlagSet("revec", flag.ExitOnError)
		file := fs.String("file", "", "file with vector input lines")
		_ = fs.Parse(args)
		header()
		revec(*file)
		footer()
	case "props":
		fs := flag.NewFlagSet("props", flag.ExitOnError)
		prop := fs.String("prop", "", "C17 or C18")
		tier := fs.String("tier", "quick", "quick or thorough")
		seed := fs.Int64("seed", 1, "PRNG seed")
		corpus := fs.String("corpus", "", "JSON-lines file of {check,input} evaluated first")
		_ = fs.Parse(args)
		os.Exit(runProps(*prop, *tier, *seed, *corpus))
	case "replay":
		fs := flag.NewFlagSet("replay", flag.ExitOnError)
		file := fs.String("file", "", "replay file (JSON with check and input)")
		_ = fs.Parse(args)
		os.Exit(runReplay(*file))
	default:
		fmt.Fprintln(os.Stderr, "usage: dtvec [vectors|revec|props|replay] ...")
		os.Exit(2)
	}
}

// ---------------------------------------------------------------- values from their encoding

func dec(s string) string {
	if s == "e" || s == "" {
		return ""
	}
	parts := strings.Split(s, ".")
	b := make([]byte, len(parts))
	for i, p := range parts {
		n, err := strconv.Atoi(p)
		if err != nil {
			panic("bad byte string " + s)
		}
		b[i] = byte(n)
	}
	return string(b)
}

// mkValue rebuilds a stored value from kind:sec:nsec:off through the public
// constructors (which are idempotent on their own results).
func mkValue(encd string) types.DateTime {
	p := strings.Split(encd, ":")
	if len(p) != 4 {
		panic("bad datetime encoding " + encd)
	}
	kind, _ := strconv.Atoi(p[0])
	sec, _ := strconv.ParseInt(p[1], 10, 64)
	nsec, _ := strconv.ParseInt(p[2], 10, 64)
	off, _ := strconv.Atoi(p[3])
	t := time.Unix(sec, nsec).In(time.FixedZone("", off))
	switch kind {
	case 0:
		return types.NewDate(t)
	case 1:
		return types.NewTime(t)
	case 2:
		return types.NewTimeTZ(t)
	case 3:
		return types.NewTimestamp(t)
	case 4:
		return types.NewTimestampTZ(context.Background(), t)
	}
	panic("bad kind " + encd)
}

func zoneByID(id string) zoneDef {
	for _, z := range zones {
		if z.id == id {
			return z
		}
	}
	panic("unknown zone " + id)
}

// revec reads vector lines (only the input fields are used) and emits the
// vectors the current implementation produces for these inputs.
func revec(file string) {
	f, err := os.Open(file)
	if err != nil {
		panic(err)
	}
	defer f.Close()
	sc := bufio.NewScanner(f)
	sc.Buffer(make([]byte, 1<<20), 1<<24)
	for sc.Scan() {
		fl := strings.Split(sc.Text(), "|")
		if len(fl) < 2 {
			continue
		}
		atoi := func(s string) int { n, _ := strconv.Atoi(s); return n }
		switch fl[0] {
		case "P", "R":
			parseVecK(fl[0], zoneByID(fl[1]), dec(fl[3]), atoi(fl[2]))
		case "S":
			v := mkValue(fl[1])
			b, err := json.Marshal(v)
			if err != nil {
				panic(err)
			}
			emit("S", encDT(v), enc(v.String()), enc(string(b)))
		case "U":
			unmarshalVec(atoi(fl[1]), []byte(dec(fl[2])))
		case "C":
			castOne(zoneByID(fl[2]), atoi(fl[1]), mkValue(fl[3]))
		case "X":
			cmpVec(zoneByID(fl[2]), fl[1] == "1", mkValue(fl[3]), mkValue(fl[4]))
		case "E":
			execVec(zoneByID(fl[4]), atoi(fl[1]), fl[2], fl[3] == "1", dec(fl[5]))
		case "Q":
			cmpStrVec(zoneByID(fl[2]), fl[1] == "1", dec(fl[3]), dec(fl[4]))
		}
	}
}

// castOne emits the C vector of one (target, zone, value).
func castOne(z zoneDef, target int, v types.DateTime) {
	ctx := ctxFor(z)
	var r types.DateTime
	switch x := v.(type) {
	case *types.Date:
		switch target {
		case 3:
			r = x.ToTimestamp(ctx)
		case 4:
			r = x.ToTimestampTZ(ctx)
		}
	case *types.Time:
		if target == 2 {
			r = x.ToTimeTZ(ctx)
		}
	case *types.TimeTZ:
		if target == 1 {
			r = x.ToTime(ctx)
		}
	case *types.Timestamp:
		switch target {
		case 0:
			r = x.ToDate(ctx)
		case 1:
			r = x.ToTime(ctx)
		case 4:
			r = x.ToTimestampTZ(ctx)
		}
	case *types.TimestampTZ:
		switch target {
		case 0:
			r = x.ToDate(ctx)
		case 1:
			r = x.ToTime(ctx)
		case 2:
			r = x.ToTimeTZ(ctx)
		case 3:
			r = x.ToTimestamp(ctx)
		}
	}
	if r == nil {
		return
	}
	emit("C", strconv.Itoa(target), z.id, encDT(v), encDT(r))
}

// ---------------------------------------------------------------- pseudo-random vectors

type rgen struct{ r *rand.Rand }

func (g rgen) pick(ss []string) string { return ss[g.r.Intn(len(ss))] }

// civil returns a random civil date/clock, biased to boundaries and to the
// transitions of the named zones.
func (g rgen) civil() (string, string) {
	r := g.r
	var y, m, d int
	switch r.Intn(8) {
	case 0:
		in := instants[r.Intn(len(instants))]
		return in.date, in.clock
	case 1:
		y = []int{1, 2, 1582, 1883, 1900, 1969, 1970, 2000, 2038, 2098, 9998, 9999}[r.Intn(12)]
	case 2, 3:
		y = 2005 + r.Intn(20)
	default:
		y = 1 + r.Intn(9999)
	}
	m = 1 + r.Intn(12)
	d = 1 + r.Intn(31)
	// keep invalid days now and then: the cascade must reject them
	if r.Intn(20) != 0 {
		last := time.Date(y, time.Month(m)+1, 0, 0, 0, 0, 0, time.UTC).Day()
		if d > last {
			d = last
		}
	}
	if r.Intn(6) == 0 { // DST change days (US, Lord Howe, Havana)
		md := [][2]int{{3, 8 + r.Intn(7)}, {11, 1 + r.Intn(7)}, {10, 1 + r.Intn(7)}, {4, 1 + r.Intn(7)}}[r.Intn(4)]
		m, d = md[0], md[1]
	}
	h, mi, s := r.Intn(24), r.Intn(60), r.Intn(60)
	switch r.Intn(6) {
	case 0:
		h, mi, s = 0, 0, 0
	case 1:
		h, mi, s = 23, 59, 59
	case 2:
		h = r.Intn(4)
	}
	return fmt.Sprintf("%04d-%02d-%02d", y, m, d), fmt.Sprintf("%02d:%02d:%02d", h, mi, s)
}

func (g rgen) frac() string {
	r := g.r
	switch r.Intn(6) {
	case 0:
		return ""
	case 1:
		return g.pick(fracs)
	}
	n := 1 + r.Intn(10)
	b := make([]byte, n)
	for i := range b {
		b[i] = byte('0' + r.Intn(10))
	}
	if r.Intn(4) == 0 { // runs of nines and fives exercise rounding carries
		for i := range b {
			b[i] = '9'
		}
		if r.Intn(2) == 0 {
			b[n-1] = '5'
		}
	}
	sep := "."
	if r.Intn(12) == 0 {
		sep = ","
	}
	return sep + string(b)
}

func (g rgen) off() off {
	r := g.r
	if r.Intn(12) == 0 {
		return oddOffsets[r.Intn(len(oddOffsets))]
	}
	if r.Intn(3) == 0 {
		return offsets[r.Intn(len(offsets))]
	}
	return mkOff((r.Intn(26*4+1) - 12*4) * 900) // -12:00 .. +14:00 in quarter hours
}

func (g rgen) zoneText(o off) string {
	r := g.r
	switch {
	case o.secs == 0 && r.Intn(2) == 0:
		return "Z"
	case o.short != "" && r.Intn(2) == 0:
		return o.short
	case o.colon != "":
		return o.colon
	}
	return o.colonsec
}

// str returns a datetime string of a random shape (kind 0..4).
func (g rgen) str(kind int) string {
	d, c := g.civil()
	sep := "T"
	if g.r.Intn(3) == 0 {
		sep = " "
	}
	switch kind {
	case 0:
		return d
	case 1:
		return c + g.frac()
	case 2:
		return c + g.frac() + g.zoneText(g.off())
	case 3:
		return d + sep + c + g.frac()
	}
	return d + sep + c + g.frac() + g.zoneText(g.off())
}

func (g rgen) value(kind int) types.DateTime {
	d, c := g.civil()
	base, err := time.Parse("2006-01-02 15:04:05", d+" "+c)
	if err != nil {
		base = time.Date(2001, 2, 3, 4, 5, 6, 0, time.UTC)
	}
	nanos := []int{0, 1, 500000000, 999999999, 123456789, 120000000, 999999000, 999999500, 100000000, 123000000}
	ns := nanos[g.r.Intn(len(nanos))]
	if g.r.Intn(3) == 0 {
		ns = g.r.Intn(1000000000)
	}
	t := time.Date(base.Year(), base.Month(), base.Day(), base.Hour(), base.Minute(), base.Second(), ns,
		time.FixedZone("", g.off().secs))
	switch kind {
	case 0:
		return types.NewDate(t)
	case 1:
		return types.NewTime(t)
	case 2:
		return types.NewTimeTZ(t)
	case 3:
		return types.NewTimestamp(t)
	}
	return types.NewTimestampTZ(context.Background(), t)
}

func (g rgen) zone() zoneDef { return zones[g.r.Intn(len(zones))] }

func (g rgen) hostile() string {
	r := g.r
	chars := []byte(`"0123456789:+-TZ., `)
	switch r.Intn(4) {
	case 0: // mutate a valid value
		v := g.value(r.Intn(5))
		b, _ := json.Marshal(v)
		if len(b) > 2 {
			switch r.Intn(3) {
			case 0:
				b[1+r.Intn(len(b)-2)] = chars[r.Intn(len(chars))]
			case 1:
				b = b[:r.Intn(len(b))]
			case 2:
				i := 1 + r.Intn(len(b)-2)
				b = append(b[:i:i], b[i+1:]...)
			}
		}
		return string(b)
	case 1: // JSON tokens
		return g.pick([]string{`null`, `true`, `false`, `0`, `-1`, `1e3`, `12.5`, `[]`, `{}`, `[1]`, `{"a":1}`, `""`, `"1"`, `"a"`})
	default:
		n := r.Intn(14)
		if r.Intn(3) == 0 {
			n = r.Intn(40)
		}
		b := make([]byte, n)
		for j := range b {
			b[j] = chars[r.Intn(len(chars))]
		}
		if r.Intn(2) == 0 && n >= 2 {
			b[0], b[n-1] = '"', '"'
		}
		return string(b)
	}
}

func timeLike(k int) bool { return k == 1 || k == 2 }

// genRandom emits n pseudo-random vectors of all kinds.
func genRandom(n int, seed int64) {
	g := rgen{rand.New(rand.NewSource(seed))}
	r := g.r
	utc := zones[0]
	pr := []int{-1, -1, 0, 1, 2, 3, 4, 5, 6, 7, 9}
	prE := []string{"n", "n", "0", "1", "2", "3", "4", "5", "6", "7", "9", "12"}
	for i := 0; i < n; i++ {
		switch r.Intn(10) {
		case 0, 1:
			z := utc
			if r.Intn(5) == 0 {
				z = g.zone()
			}
			parseVec(z, g.str(r.Intn(5)), pr[r.Intn(len(pr))])
		case 2:
			v := g.value(r.Intn(5))
			b, err := json.Marshal(v)
			if err != nil {
				panic(err)
			}
			emit("S", encDT(v), enc(v.String()), enc(string(b)))
			unmarshalVec(kindOf(v), b)
			parseVecK("R", utc, v.String(), -1)
		case 3:
			h := g.hostile()
			unmarshalVec(r.Intn(5), []byte(h))
		case 4, 5:
			v := g.value(r.Intn(5))
			z := g.zone()
			if _, ok := v.(*types.Time); ok && !z.fixed {
				z = utc
			}
			castVec(z, v)
		case 6, 7:
			ka := r.Intn(5)
			kb := r.Intn(5)
			if r.Intn(8) != 0 { // mostly comparable families
				for timeLike(ka) != timeLike(kb) {
					kb = r.Intn(5)
				}
			}
			a, b := g.value(ka), g.value(kb)
			if r.Intn(3) == 0 && !timeLike(ka) && !timeLike(kb) {
				// close instants: b within a day of a
				t := a.GoTime().Add(time.Duration(r.Intn(172800)-86400) * time.Second)
				b = mkValue(fmt.Sprintf("%d:%d:%d:%d", kb, t.Unix(), t.Nanosecond(), g.off().secs))
			}
			z := g.zone()
			if (ka == 1) != (kb == 1) && !z.fixed {
				z = zones[r.Intn(5)]
			}
			if !inRange(z, a.GoTime(), b.GoTime()) {
				continue
			}
			cmpVec(z, r.Intn(4) != 0, a, b)
		case 8:
			z := g.zone()
			t := r.Intn(6)
			if !z.fixed && t == 2 {
				z = zones[r.Intn(5)]
			}
			src := g.str(r.Intn(5))
			if tv, ok := types.ParseTime(context.Background(), src, -1); ok && !inRange(z, tv.GoTime()) {
				z = zones[r.Intn(5)] // beyond the exported transition table: fixed zones only
			}
			execVec(z, t, prE[r.Intn(len(prE))], r.Intn(3) != 0, src)
		case 9:
			ka := r.Intn(5)
			kb := r.Intn(5)
			if r.Intn(8) != 0 {
				for timeLike(ka) != timeLike(kb) {
					kb = r.Intn(5)
				}
			}
			a, b := g.str(ka), g.str(kb)
			ta, oka := types.ParseTime(context.Background(), a, -1)
			tb, okb := types.ParseTime(context.Background(), b, -1)
			if !oka || !okb {
				continue
			}
			z := g.zone()
			if (kindOf(ta) == 1) != (kindOf(tb) == 1) && !z.fixed {
				z = zones[r.Intn(5)]
			}
			if !inRange(z, ta.GoTime(), tb.GoTime()) {
				continue
			}
			cmpStrVec(z, r.Intn(4) != 0, a, b)
		}
	}
}
