// Property checks of C17 and C18 evaluated on the implementation's own
// outputs (no model involved).  Every check is a function of an explicit
// input; the grids below call them, and `dtvec replay` calls the same function
// on the input stored in a replay file.
//
// Output: JSON lines on stdout
//
//	{"t":"fail","check":..,"class":..,"input":{..},"expected":..,"observed":..}
//	{"t":"stat","evaluations":N,"distinct_nontrivial":N,"queries":N,"fail_counts":{..}}
//	{"t":"hist","name":..,"counts":{..}}
//	{"t":"sample",..}
package main

import (
	"context"
	"encoding/hex"
	"encoding/json"
	"errors"
	"fmt"
	"math/rand"
	"os"
	"regexp"
	"runtime"
	"sort"
	"strconv"
	"strings"
	"sync"
	"time"

	"github.com/theory/sqljson/path"
	"github.com/theory/sqljson/path/exec"
	"github.com/theory/sqljson/path/types"
)

// ---------------------------------------------------------------- bookkeeping

type stats struct {
	evals, nontrivial, queries int64
	hist                       map[string]map[string]int64
}

func newStats() *stats { return &stats{hist: map[string]map[string]int64{}} }

func (s *stats) h(name, key string) {
	m := s.hist[name]
	if m == nil {
		m = map[string]int64{}
		s.hist[name] = m
	}
	m[key]++
}

// ev counts one property check; nontrivial says whether its input is accepted
// by at least one layout (distinctness is by construction: the grids are
// deduplicated and every tuple is visited once).
func (s *stats) ev(kind string, nontrivial bool) {
	s.evals++
	if nontrivial {
		s.nontrivial++
	}
	s.h("checks", kind)
}

var (
	gmu       sync.Mutex
	gstats    = newStats()
	failCount = map[string]int64{}
	failKept  = map[string]int{}
	samples   = map[string]int{}
	outJ      = json.NewEncoder(os.Stdout)
)

const keepPerClass = 12

func merge(s *stats) {
	gmu.Lock()
	defer gmu.Unlock()
	gstats.evals += s.evals
	gstats.nontrivial += s.nontrivial
	gstats.queries += s.queries
	for n, m := range s.hist {
		for k, v := range m {
			g := gstats.hist[n]
			if g == nil {
				g = map[string]int64{}
				gstats.hist[n] = g
			}
			g[k] += v
		}
	}
}

type obj = map[string]any

func fail(check, class string, input obj, expected, observed string) {
	gmu.Lock()
	defer gmu.Unlock()
	key := check + "|" + class
	failCount[key]++
	if failKept[key] >= keepPerClass {
		return
	}
	failKept[key]++
	_ = outJ.Encode(obj{"t": "fail", "check": check, "class": class, "input": input, "expected": expected, "observed": observed})
}

func sample(check string, input obj, observed any) {
	gmu.Lock()
	defer gmu.Unlock()
	if samples[check] >= 2 {
		return
	}
	samples[check]++
	_ = outJ.Encode(obj{"t": "sample", "check": check, "input": input, "observed": observed})
}

func parallel(n int, f func(i int, st *stats)) {
	var wg sync.WaitGroup
	sem := make(chan struct{}, runtime.NumCPU())
	for i := 0; i < n; i++ {
		wg.Add(1)
		sem <- struct{}{}
		go func(i int) {
			defer wg.Done()
			defer func() { <-sem }()
			st := newStats()
			defer merge(st)
			defer func() {
				if r := recover(); r != nil {
					fail("harness.panic", "NONE", obj{"task": i}, "no panic", fmt.Sprint(r))
				}
			}()
			f(i, st)
		}(i)
	}
	wg.Wait()
}

// ---------------------------------------------------------------- zones, paths, queries

type pzone struct {
	name  string
	loc   *time.Location
	fixed bool
}

var fixedRE = regexp.MustCompile(`^([+-])(\d\d):(\d\d)(?::(\d\d))?$`)

func parseZone(name string) pzone {
	if name == "UTC" {
		return pzone{name, time.UTC, true}
	}
	if m := fixedRE.FindStringSubmatch(name); m != nil {
		h, _ := strconv.Atoi(m[2])
		mi, _ := strconv.Atoi(m[3])
		s := 0
		if m[4] != "" {
			s, _ = strconv.Atoi(m[4])
		}
		secs := h*3600 + mi*60 + s
		if m[1] == "-" {
			secs = -secs
		}
		return pzone{name, time.FixedZone("", secs), true}
	}
	loc, err := time.LoadLocation(name)
	if err != nil {
		panic(fmt.Sprintf("zone %q: %v", name, err))
	}
	return pzone{name, loc, false}
}

func fixedName(secs int) string {
	sign := "+"
	a := secs
	if a < 0 {
		sign, a = "-", -a
	}
	if a%60 != 0 {
		return fmt.Sprintf("%s%02d:%02d:%02d", sign, a/3600, a/60%60, a%60)
	}
	return fmt.Sprintf("%s%02d:%02d", sign, a/3600, a/60%60)
}

func (z pzone) ctx() context.Context { return types.ContextWithTZ(context.Background(), z.loc) }

var pathCache sync.Map

func getPath(text string) *path.Path {
	if p, ok := pathCache.Load(text); ok {
		return p.(*path.Path)
	}
	p, err := path.Parse(text)
	if err != nil {
		panic(fmt.Sprintf("path %q: %v", text, err))
	}
	pathCache.Store(text, p)
	return p
}

func query(st *stats, text string, z pzone, doc any, useTZ, silent bool) (res []any, err error) {
	st.queries++
	var opts []exec.Option
	if useTZ {
		opts = append(opts, exec.WithTZ())
	}
	if silent {
		opts = append(opts, exec.WithSilent())
	}
	defer func() {
		if r := recover(); r != nil {
			err = fmt.Errorf("PANIC: %v", r)
		}
	}()
	return getPath(text).Query(z.ctx(), doc, opts...)
}

func errClass(err error) string {
	if err == nil {
		return "none"
	}
	msg := err.Error()
	switch {
	case strings.HasPrefix(msg, "PANIC"):
		return "panic"
	case strings.Contains(msg, "without time zone usage"):
		return "tzreq"
	case strings.Contains(msg, "format is not recognized"):
		return "notrec"
	case strings.Contains(msg, "time precision"):
		return "badprec"
	case errors.Is(err, exec.ErrInvalid):
		return "invalid"
	}
	return "other"
}

func errFlags(err error) string {
	return fmt.Sprintf("%q [class=%s ErrExecution=%v ErrVerbose=%v ErrInvalid=%v]", err.Error(), errClass(err),
		errors.Is(err, exec.ErrExecution), errors.Is(err, exec.ErrVerbose), errors.Is(err, exec.ErrInvalid))
}

// three-way comparison through three queries
type cmpRes struct {
	code int // -1 0 1 consistent; 2 all null; 3 all tz-required errors; 9 anything else
	desc string
	errs [3]error
}

func one(st *stats, text string, z pzone, doc any, useTZ, silent bool) (string, error) {
	r, err := query(st, text, z, doc, useTZ, silent)
	if err != nil {
		return "error(" + errClass(err) + ")", err
	}
	if len(r) != 1 {
		return fmt.Sprintf("%v", r), nil
	}
	switch r[0] {
	case nil:
		return "null", nil
	case true:
		return "true", nil
	case false:
		return "false", nil
	}
	return fmt.Sprintf("%v", r[0]), nil
}

func cmp3q(st *stats, lhs, rhs string, z pzone, doc any, useTZ, silent bool) cmpRes {
	var c cmpRes
	var o [3]string
	for i, op := range []string{"<", "==", ">"} {
		o[i], c.errs[i] = one(st, lhs+" "+op+" "+rhs, z, doc, useTZ, silent)
	}
	c.desc = fmt.Sprintf("<:%s ==:%s >:%s", o[0], o[1], o[2])
	switch {
	case o[0] == "true" && o[1] == "false" && o[2] == "false":
		c.code = -1
	case o[0] == "false" && o[1] == "true" && o[2] == "false":
		c.code = 0
	case o[0] == "false" && o[1] == "false" && o[2] == "true":
		c.code = 1
	case o[0] == "null" && o[1] == "null" && o[2] == "null":
		c.code = 2
	case o[0] == "error(tzreq)" && o[1] == o[0] && o[2] == o[0]:
		c.code = 3
	default:
		c.code = 9
	}
	return c
}

var methodNames = []string{"date", "time", "time_tz", "timestamp", "timestamp_tz", "datetime"}
var kindNames = []string{"date", "time", "timetz", "timestamp", "timestamptz"}
var typeNames = []string{"date", "time without time zone", "time with time zone", "timestamp without time zone", "timestamp with time zone"}

func methodIndex(name string) int {
	for i, m := range methodNames {
		if m == name {
			return i
		}
	}
	panic("unknown method " + name)
}

// shape classifies a string by its text alone: the type .datetime() should
// choose (independent of the implementation's cascade); -1 = not a documented form.
var shapeRE = []*regexp.Regexp{
	regexp.MustCompile(`^\d{4}-\d{2}-\d{2}$`),
	regexp.MustCompile(`^\d{2}:\d{2}:\d{2}([.,]\d+)?$`),
	regexp.MustCompile(`^\d{2}:\d{2}:\d{2}([.,]\d+)?(Z|[+-]\d{2}(:\d{2})?)$`),
	regexp.MustCompile(`^\d{4}-\d{2}-\d{2}[T ]\d{2}:\d{2}:\d{2}([.,]\d+)?$`),
	regexp.MustCompile(`^\d{4}-\d{2}-\d{2}[T ]\d{2}:\d{2}:\d{2}([.,]\d+)?(Z|[+-]\d{2}(:\d{2})?)$`),
}

func shape(s string) int {
	for k, re := range shapeRE {
		if re.MatchString(s) {
			return k
		}
	}
	return -1
}

// exists reports whether the wall-clock reading of the zone-less value v is
// an existing local time of zone z (today's date for a Time).
func exists(z pzone, v types.DateTime) bool {
	if z.fixed {
		return true
	}
	t := v.GoTime()
	y, mo, d := t.Date()
	if kindOf(v) == 1 {
		y, mo, d = time.Now().Date()
	}
	h, mi, s := t.Clock()
	u := time.Date(y, mo, d, h, mi, s, t.Nanosecond(), z.loc)
	y2, mo2, d2 := u.Date()
	h2, mi2, s2 := u.Clock()
	return y == y2 && mo == mo2 && d == d2 && h == h2 && mi == mi2 && s == s2
}

// ---------------------------------------------------------------- C17

type term struct {
	ok  bool
	v   types.DateTime
	err error
}

// evalTerm runs $.m() on s.
func evalTerm(st *stats, z pzone, s string, m int, useTZ, silent bool) term {
	r, err := query(st, "$."+methodNames[m]+"()", z, s, useTZ, silent)
	if err != nil {
		return term{err: err}
	}
	if len(r) != 1 {
		return term{}
	}
	v, ok := r[0].(types.DateTime)
	return term{ok: ok, v: v}
}

func pairInput(z pzone, a, b string, m1, m2 int) obj {
	return obj{"a": a, "b": b, "m1": methodNames[m1], "m2": methodNames[m2], "zone": z.name,
		"options": []string{"WithTZ"}, "doc": []string{a, b},
		"path": fmt.Sprintf("$[0].%s() OP $[1].%s()  (OP in < == >)", methodNames[m1], methodNames[m2])}
}

// chkPair: with WithTZ, `$[0].m1() OP $[1].m2()` gives exactly one true among
// < == > when both sides are values of one family, null for all three
// otherwise; and the mirrored query gives the mirrored answer.
func chkPair(st *stats, z pzone, a, b string, m1, m2 int, mirror bool) int {
	t1 := evalTerm(st, z, a, m1, true, false)
	t2 := evalTerm(st, z, b, m2, true, false)
	return chkPairT(st, z, a, b, m1, m2, t1, t2, mirror)
}

func chkPairT(st *stats, z pzone, a, b string, m1, m2 int, t1, t2 term, mirror bool) int {
	lhs, rhs := "$[0]."+methodNames[m1]+"()", "$[1]."+methodNames[m2]+"()"
	doc := []any{a, b}
	r := cmp3q(st, lhs, rhs, z, doc, true, false)
	want := "exactly one of < == > true"
	comparable := t1.ok && t2.ok && timeLike(kindOf(t1.v)) == timeLike(kindOf(t2.v))
	if !comparable {
		want = "null for < == > (an operand is not a datetime of the other's family)"
	}
	st.ev("c17.trichotomy", t1.ok || t2.ok)
	if (comparable && (r.code < -1 || r.code > 1)) || (!comparable && r.code != 2) {
		fail("c17.trichotomy", "NONE", pairInput(z, a, b, m1, m2), want, r.desc)
	} else if comparable {
		sample("c17.trichotomy", pairInput(z, a, b, m1, m2), r.desc)
	}
	if mirror {
		r2 := cmp3q(st, "$[0]."+methodNames[m2]+"()", "$[1]."+methodNames[m1]+"()", z, []any{b, a}, true, false)
		st.ev("c17.antisymmetry", t1.ok || t2.ok)
		okm := (r.code == 2 && r2.code == 2) || (r.code >= -1 && r.code <= 1 && r2.code == -r.code)
		if !okm && r.code != 9 && r2.code != 9 {
			in := pairInput(z, a, b, m1, m2)
			in["mirrored_path"] = fmt.Sprintf("$[0].%s() OP $[1].%s() on [b, a]", methodNames[m2], methodNames[m1])
			fail("c17.antisymmetry", "NONE", in, "the mirrored comparison gives the mirrored answer", "a?b "+r.desc+"; b?a "+r2.desc)
		}
	}
	return r.code
}

type tval struct {
	s string
	m int
	v types.DateTime
}

func le(c int) bool { return c == -1 || c == 0 }

// chkTriple: transitivity on three values of one family.
func chkTriple(st *stats, z pzone, x, y, w tval, cxy, cyw, cxw int) {
	st.ev("c17.transitivity", true)
	bad := false
	if le(cxy) && le(cyw) {
		if !le(cxw) || ((cxy == -1 || cyw == -1) && cxw != -1) {
			bad = true
		}
	}
	if !bad {
		return
	}
	class := "NONE"
	if !z.fixed {
		for _, t := range []tval{x, y, w} {
			if k := kindOf(t.v); (k == 0 || k == 1 || k == 3) && !exists(z, t.v) {
				class = "C17-dst-gap-order"
			}
		}
	}
	tj := func(t tval) obj {
		return obj{"s": t.s, "m": methodNames[t.m], "value": t.v.String(), "type": kindNames[kindOf(t.v)]}
	}
	fail("c17.transitivity", class, obj{"a": tj(x), "b": tj(y), "c": tj(w), "zone": z.name, "options": []string{"WithTZ"},
		"path": "$[0].M1() OP $[1].M2() on the pairs (a,b) (b,c) (a,c)"},
		"a<=b and b<=c imply a<=c (strict if one of them is)",
		fmt.Sprintf("cmp(a,b)=%d cmp(b,c)=%d cmp(a,c)=%d", cxy, cyw, cxw))
}

func cmpT(st *stats, z pzone, x, y tval) int {
	return cmp3q(st, "$[0]."+methodNames[x.m]+"()", "$[1]."+methodNames[y.m]+"()", z, []any{x.s, y.s}, true, false).code
}

func replayTriple(st *stats, z pzone, in obj) {
	get := func(k string) tval {
		o := in[k].(map[string]any)
		s, m := o["s"].(string), methodIndex(o["m"].(string))
		t := evalTerm(st, z, s, m, true, false)
		if !t.ok {
			panic("term does not evaluate any more: " + s)
		}
		return tval{s, m, t.v}
	}
	x, y, w := get("a"), get("b"), get("c")
	chkTriple(st, z, x, y, w, cmpT(st, z, x, y), cmpT(st, z, y, w), cmpT(st, z, x, w))
}

// commonCast is the explicit cast to the common type of two kinds (-1: none needed / incomparable).
func commonCast(ka, kb int) int {
	switch {
	case ka == kb || timeLike(ka) != timeLike(kb):
		return -1
	case timeLike(ka):
		return 2
	case ka == 4 || kb == 4:
		return 4
	}
	return 3
}

func zoneMixing(ka, kb int) bool {
	aware := func(k int) bool { return k == 2 || k == 4 }
	return timeLike(ka) == timeLike(kb) && aware(ka) != aware(kb)
}

// chkCoherence: $[0].datetime() OP $[1].datetime() equals the comparison after explicit casts.
func chkCoherence(st *stats, z pzone, a, b string) {
	ta, oka := types.ParseTime(z.ctx(), a, -1)
	tb, okb := types.ParseTime(z.ctx(), b, -1)
	if !oka || !okb {
		return
	}
	c := commonCast(kindOf(ta), kindOf(tb))
	if c < 0 {
		return
	}
	st.ev("c17.cast-coherence", true)
	r1 := cmp3q(st, "$[0].datetime()", "$[1].datetime()", z, []any{a, b}, true, false)
	r2 := cmp3q(st, "$[0]."+methodNames[c]+"()", "$[1]."+methodNames[c]+"()", z, []any{a, b}, true, false)
	in := obj{"a": a, "b": b, "zone": z.name, "options": []string{"WithTZ"}, "doc": []string{a, b},
		"path": "$[0].datetime() OP $[1].datetime()", "cast_path": fmt.Sprintf("$[0].%s() OP $[1].%s()", methodNames[c], methodNames[c])}
	if r1.code != r2.code || r1.code < -1 || r1.code > 1 {
		fail("c17.cast-coherence", "NONE", in, "same answer as after the explicit casts: "+r2.desc, r1.desc)
	} else {
		sample("c17.cast-coherence", in, r1.desc)
	}
}

// castMixing: does $.m() on a value of kind k cross the zone-less/zone-aware line?
func castMixing(k, m int) bool {
	switch m {
	case 0:
		return k == 4
	case 1:
		return k == 2 || k == 4
	case 2:
		return k == 1
	case 3:
		return k == 4
	case 4:
		return k == 0 || k == 3
	}
	return false
}

func hardTZ(err error) bool {
	return err != nil && errClass(err) == "tzreq" && errors.Is(err, exec.ErrExecution) && !errors.Is(err, exec.ErrVerbose)
}

// chkNoTZCast: without WithTZ a zone-mixing cast is a hard error (also under
// WithSilent); any other cast does not ask for a time zone.
func chkNoTZCast(st *stats, z pzone, s string, m int) {
	tv, ok := types.ParseTime(z.ctx(), s, -1)
	if !ok {
		return
	}
	k := kindOf(tv)
	st.ev("c17.notz-cast", true)
	t := evalTerm(st, z, s, m, false, false)
	ts := evalTerm(st, z, s, m, false, true)
	in := obj{"s": s, "method": methodNames[m], "zone": z.name, "options": []string{}, "doc": s, "path": "$." + methodNames[m] + "()"}
	if castMixing(k, m) {
		st.h("errors", "tzreq")
		switch {
		case !hardTZ(t.err):
			obs := "a value"
			if t.err != nil {
				obs = errFlags(t.err)
			} else if t.ok {
				obs = "the value " + t.v.String()
			}
			fail("c17.notz-cast", "NONE", in, "an error that is ErrExecution and not ErrVerbose (time zone required)", obs)
		case ts.err == nil || ts.err.Error() != t.err.Error():
			in["options"] = []string{"WithSilent"}
			fail("c17.notz-cast", "NONE", in, "the same error under WithSilent: "+t.err.Error(), fmt.Sprint(ts.err))
		default:
			sample("c17.notz-cast", in, errFlags(t.err))
		}
		return
	}
	// not mixing: a value, or a suppressible format error
	switch {
	case t.err == nil:
		if !t.ok {
			fail("c17.notz-cast", "NONE", in, "a datetime value", "no value")
		}
	case errClass(t.err) == "notrec" && errors.Is(t.err, exec.ErrVerbose):
		st.h("errors", "notrec")
		if ts.err != nil {
			in["options"] = []string{"WithSilent"}
			fail("c17.notz-cast", "NONE", in, "format errors are suppressed by WithSilent", errFlags(ts.err))
		}
	default:
		fail("c17.notz-cast", "NONE", in, "a value or a format-not-recognized error (the cast does not cross the zone line)", errFlags(t.err))
	}
}

// chkNoTZCompare: without WithTZ, zone-mixing comparisons are hard errors,
// time-like vs date-like is null, anything else is decided as with WithTZ.
func chkNoTZCompare(st *stats, z pzone, a, b string) {
	ta, oka := types.ParseTime(z.ctx(), a, -1)
	tb, okb := types.ParseTime(z.ctx(), b, -1)
	if !oka || !okb {
		return
	}
	ka, kb := kindOf(ta), kindOf(tb)
	st.ev("c17.notz-compare", true)
	r := cmp3q(st, "$[0].datetime()", "$[1].datetime()", z, []any{a, b}, false, false)
	in := obj{"a": a, "b": b, "zone": z.name, "options": []string{}, "doc": []string{a, b}, "path": "$[0].datetime() OP $[1].datetime()"}
	switch {
	case zoneMixing(ka, kb):
		st.h("errors", "tzreq")
		rs := cmp3q(st, "$[0].datetime()", "$[1].datetime()", z, []any{a, b}, false, true)
		switch {
		case r.code != 3 || !hardTZ(r.errs[0]) || !hardTZ(r.errs[1]) || !hardTZ(r.errs[2]):
			obs := r.desc
			if r.errs[0] != nil {
				obs += " " + errFlags(r.errs[0])
			}
			fail("c17.notz-compare", "NONE", in, "an error that is ErrExecution and not ErrVerbose for < == >", obs)
		case rs.code != 3 || rs.errs[0].Error() != r.errs[0].Error():
			in["options"] = []string{"WithSilent"}
			fail("c17.notz-compare", "NONE", in, "the same error under WithSilent", rs.desc)
		default:
			// the same comparison inside a filter: the error is not absorbed by the predicate
			ft := "$[0] ? (@.datetime() < $[1].datetime())"
			for _, silent := range []bool{false, true} {
				if _, err := query(st, ft, z, []any{a, b}, false, silent); !hardTZ(err) {
					in["path"] = ft
					if silent {
						in["options"] = []string{"WithSilent"}
					}
					fail("c17.notz-compare", "NONE", in, "the time-zone-required error also from inside a filter", fmt.Sprint(err))
					return
				}
			}
			sample("c17.notz-compare", in, errFlags(r.errs[0]))
		}
	case timeLike(ka) != timeLike(kb):
		if r.code != 2 {
			fail("c17.notz-compare", "NONE", in, "null for < == > (times are incomparable with dates and timestamps)", r.desc)
		}
	default:
		rt := cmp3q(st, "$[0].datetime()", "$[1].datetime()", z, []any{a, b}, true, false)
		if r.code != rt.code || r.code < -1 || r.code > 1 {
			fail("c17.notz-compare", "NONE", in, "the answer given with WithTZ: "+rt.desc, r.desc)
		}
	}
}

// chkType: .datetime() picks the most specific type for the shape of s.
func chkType(st *stats, z pzone, s string, want int) {
	st.ev("c17.type", true)
	in := obj{"s": s, "zone": z.name, "doc": s, "path": "$.datetime().type()", "options": []string{"WithTZ"}, "type": typeNames[want]}
	r, err := query(st, "$.datetime().type()", z, s, true, false)
	if err != nil || len(r) != 1 || r[0] != typeNames[want] {
		fail("c17.type", "NONE", in, typeNames[want], fmt.Sprintf("%v %v", r, err))
		return
	}
	// the documented form is also accepted by the method of its own type
	own, err := query(st, "$."+methodNames[want]+"().type()", z, s, true, false)
	if err != nil || len(own) != 1 || own[0] != typeNames[want] {
		in["path"] = "$." + methodNames[want] + "().type()"
		fail("c17.type", "NONE", in, typeNames[want], fmt.Sprintf("%v %v", own, err))
		return
	}
	st.h("kinds", kindNames[want])
	sample("c17.type", in, r[0])
}

var fracRE = regexp.MustCompile(`^(?:-?\d{4,}-\d{2}-\d{2}T)?(\d{2}):(\d{2}):(\d{2})(?:\.(\d+))?`)

// nsOfDay reads seconds-of-day in ns and the number of fractional digits from a String() result.
func nsOfDay(s string) (int64, int, bool) {
	m := fracRE.FindStringSubmatch(s)
	if m == nil {
		return 0, 0, false
	}
	h, _ := strconv.Atoi(m[1])
	mi, _ := strconv.Atoi(m[2])
	se, _ := strconv.Atoi(m[3])
	ns := int64(0)
	if m[4] != "" {
		f := (m[4] + "000000000")[:9]
		n, _ := strconv.Atoi(f)
		ns = int64(n)
	}
	return int64(h*3600+mi*60+se)*1e9 + ns, len(m[4]), true
}

// chkPrecision: $.m(p) keeps at most min(p,6) fractional digits and moves the
// value by at most half a unit of that precision.
func chkPrecision(st *stats, z pzone, s string, m int, p int) {
	text := fmt.Sprintf("$.%s(%d).string()", methodNames[m], p)
	in := obj{"s": s, "method": methodNames[m], "precision": p, "zone": z.name, "doc": s, "path": text, "options": []string{"WithTZ"}}
	r0, err0 := query(st, fmt.Sprintf("$.%s().string()", methodNames[m]), z, s, true, false)
	if err0 != nil || len(r0) != 1 {
		return // the cast itself is not applicable to s
	}
	st.ev("c17.precision", true)
	st.h("precisions", strconv.Itoa(p))
	r, err := query(st, text, z, s, true, false)
	if err != nil || len(r) != 1 {
		fail("c17.precision", "NONE", in, "a value (the cast without precision gives "+fmt.Sprint(r0[0])+")", fmt.Sprintf("%v %v", r, err))
		return
	}
	full, _, ok1 := nsOfDay(r0[0].(string))
	got, digits, ok2 := nsOfDay(r[0].(string))
	if !ok1 || !ok2 {
		fail("c17.precision", "NONE", in, "a time text", fmt.Sprintf("%v / %v", r0[0], r[0]))
		return
	}
	eff := p
	if eff > 6 {
		eff = 6
	}
	unit := int64(1e9)
	for i := 0; i < eff; i++ {
		unit /= 10
	}
	diff := got - full
	const day = int64(86400) * 1e9
	if diff > day/2 {
		diff -= day
	}
	if diff < -day/2 {
		diff += day
	}
	if diff < 0 {
		diff = -diff
	}
	if digits > eff || 2*diff > unit || got%unit != 0 {
		fail("c17.precision", "NONE", in,
			fmt.Sprintf("%v rounded to %d fractional digits (at most half a unit = %dns away)", r0[0], eff, unit/2),
			fmt.Sprintf("%v (%d digits, %dns away)", r[0], digits, diff))
		return
	}
	sample("c17.precision", in, r[0])
}

// chkVsOther: a datetime compared with an item that is not a datetime is unknown, not an error.
func chkVsOther(st *stats, z pzone, s string, other any) {
	st.ev("c17.datetime-vs-other", true)
	r := cmp3q(st, "$[0].datetime()", "$[1]", z, []any{s, other}, true, false)
	if r.code == 2 {
		return
	}
	class := "NONE"
	if r.errs[0] != nil && errors.Is(r.errs[0], exec.ErrInvalid) {
		class = "C05-errinvalid-datetime-compare"
	}
	ob, _ := json.Marshal(other)
	obs := r.desc
	if r.errs[0] != nil {
		obs += " " + errFlags(r.errs[0])
	}
	fail("c17.datetime-vs-other", class, obj{"s": s, "other_json": string(ob), "zone": z.name, "options": []string{"WithTZ"},
		"doc": []any{s, other}, "path": "$[0].datetime() OP $[1]"}, "null for < == > (unknown)", obs)
}

var c17ZoneNames = []string{"UTC", "+05:30", "-08:00", "+14:00", "-12:00", "-00:00:30",
	"America/New_York", "Australia/Lord_Howe", "Pacific/Apia", "America/Havana"}

// documented forms (ParseTime's doc comment: date, time_tz, time, timestamp_tz, timestamp; "T" or space)
var isoForms = [][]string{
	{"2023-08-15", "0001-01-01", "9999-12-31", "2024-02-29", "1970-01-01"},
	{"12:34:56", "00:00:00", "23:59:59", "12:34:56.7", "12:34:56.789", "12:34:56.789012", "12:34:56.789012345"},
	{"12:34:56Z", "12:34:56+01", "12:34:56-08", "12:34:56+05:30", "12:34:56-03:30", "12:34:56.789+05:45", "12:34:56.5Z", "00:00:00+14", "23:59:59-12:00", "12:34:56+00:00"},
	{"2023-08-15T12:34:56", "2023-08-15 12:34:56", "2023-08-15T12:34:56.789", "2023-08-15 12:34:56.789012", "0001-01-01T00:00:00", "9999-12-31T23:59:59.999999"},
	{"2023-08-15T12:34:56Z", "2023-08-15 12:34:56Z", "2023-08-15T12:34:56+01", "2023-08-15 12:34:56-08", "2023-08-15T12:34:56+05:30", "2023-08-15 12:34:56-03:30",
		"2023-08-15T12:34:56.789+05:45", "2023-08-15T12:34:56.789012Z", "0001-01-01T00:00:00+00:00", "9999-12-31T23:59:59.999999-12:00", "2023-08-15T12:34:56+14:00"},
}

// chkContextZone: "with WithTZ such casts use the time zone carried by the
// context".  The oracle is Go's time package, not the library: a zone-less
// date or timestamp cast to timestamptz must be an instant whose wall clock in
// the context zone is the wall clock of the source (when that wall clock
// exists in the zone; either choice is accepted when it exists twice), and a
// timestamptz cast to timestamp / date must be the wall clock / calendar day
// that instant has in the context zone.
func chkContextZone(st *stats, z pzone, s string, row []term) {
	wall := func(t time.Time) string { return t.Format("2006-01-02T15:04:05.999999999") }
	switch shape(s) {
	case 0, 3:
		ts, tz := row[3], row[4]
		if !ts.ok || !tz.ok || kindOf(ts.v) != 3 || kindOf(tz.v) != 4 || !exists(z, ts.v) {
			return
		}
		st.ev("c17.context-zone", !z.fixed)
		want := wall(ts.v.GoTime())
		got := wall(tz.v.GoTime().In(z.loc))
		if got != want {
			fail("c17.context-zone", "NONE", obj{"s": s, "method": "timestamp_tz", "zone": z.name, "options": []string{"WithTZ"}, "doc": s, "path": "$.timestamp_tz()"},
				"an instant whose wall clock in the context zone is "+want, fmt.Sprint(tz.v)+" (wall clock "+got+")")
		}
	case 4:
		ts, tz, d := row[3], row[4], row[0]
		if !tz.ok || kindOf(tz.v) != 4 {
			return
		}
		inst := tz.v.GoTime().In(z.loc)
		if ts.ok && kindOf(ts.v) == 3 {
			st.ev("c17.context-zone", !z.fixed)
			if got, want := wall(ts.v.GoTime()), wall(inst); got != want {
				fail("c17.context-zone", "NONE", obj{"s": s, "method": "timestamp", "zone": z.name, "options": []string{"WithTZ"}, "doc": s, "path": "$.timestamp()"},
					"the wall clock of the instant in the context zone: "+want, got)
			}
		}
		if d.ok && kindOf(d.v) == 0 {
			st.ev("c17.context-zone", !z.fixed)
			if got, want := d.v.GoTime().Format("2006-01-02"), inst.Format("2006-01-02"); got != want {
				fail("c17.context-zone", "NONE", obj{"s": s, "method": "date", "zone": z.name, "options": []string{"WithTZ"}, "doc": s, "path": "$.date()"},
					"the calendar day of the instant in the context zone: "+want, got)
			}
		}
	}
}

func c17Strings(tier string, rng *rand.Rand) []string {
	base := []string{
		"2015-08-02", "2015-08-01", "2021-03-14", "2021-11-07", "2011-12-30", "2011-12-31", "0001-01-01", "9999-12-31", "2000-02-29", "1969-12-31", "2021-10-03", "2021-03-28",
		"2015-08-02T00:00:00", "2015-08-01T23:59:59.999999999", "2015-08-02 00:00:00.000000001", "2021-03-14T01:45:00", "2021-03-14T02:30:00", "2021-03-14T03:15:00",
		"2021-11-07T01:30:00", "2021-11-07 00:59:59.5", "2021-10-03T02:15:00", "2021-10-03T01:45:00", "2011-12-30T12:00:00", "2011-12-29T23:00:00", "2021-03-14T00:00:00",
		"2021-03-28T00:30:00", "2021-11-07T03:00:00", "2021-11-07T05:59:59", "2021-03-14T06:30:00", "2024-11-03T03:00:00", "2021-04-04T02:15:00", "0001-01-01T00:00:00", "9999-12-31T23:59:59.999999", "1969-12-31T23:59:59",
		"2021-03-14T06:40:00Z", "2021-03-14T07:30:00+00", "2021-03-14T06:30:00Z", "2021-03-14T02:45:00-04:00", "2015-08-02T00:00:00-04:00", "2015-08-02T04:00:00Z",
		"2015-08-02T09:30:00+05:30", "2015-08-01T16:00:00-12:00", "2015-08-02T18:00:00+14:00", "2015-08-02 00:00:00+00", "2015-08-01T18:30:00+00:00",
		"2021-11-07T05:30:00Z", "2021-11-07T06:30:00Z", "2011-12-30T10:00:00Z", "2011-12-31T00:00:00+14:00", "2021-10-02T15:30:00Z", "2021-03-28T05:00:00Z",
		"0001-01-01T00:00:00+14:00", "9999-12-31T23:59:59-12:00", "2015-08-02T04:00:00.000000001Z",
		"12:00:00", "12:00:00.000000001", "00:00:00", "23:59:59.999999999", "12:00:00.5", "06:30:00", "02:30:00",
		"12:00:00Z", "13:00:00+01", "11:00:00-01:00", "17:30:00+05:30", "04:00:00-08", "00:00:00+14:00", "23:59:59.999999999-12:00", "12:00:00+05:45", "12:00:00-03:30", "12:00:00.5Z",
	}
	n := 0
	if tier == "thorough" {
		n = 60
	} else {
		n = 12
	}
	g := rgen{rng}
	for i := 0; i < n; i++ {
		base = append(base, g.str(rng.Intn(5)))
	}
	seen := map[string]bool{}
	var res []string
	for _, s := range base {
		if _, ok := types.ParseTime(context.Background(), s, -1); ok && !seen[s] {
			seen[s] = true
			res = append(res, s)
		}
	}
	return res
}

func runC17(tier string, seed int64) {
	rng := rand.New(rand.NewSource(seed))
	strs := c17Strings(tier, rng)
	var zs []pzone
	for _, n := range c17ZoneNames {
		zs = append(zs, parseZone(n))
	}
	if tier == "thorough" {
		for i := 0; i < 6; i++ {
			zs = append(zs, parseZone(fixedName((rng.Intn(26*4+1)-12*4)*900)))
		}
		for _, n := range []string{"Europe/London", "Asia/Kathmandu", "America/St_Johns", "Africa/Casablanca"} {
			if _, err := time.LoadLocation(n); err == nil {
				zs = append(zs, parseZone(n))
			}
		}
	}
	// method pairs per string pair: all 36 (thorough) or (datetime,datetime) plus a seeded choice (quick)
	nmp := 36
	if tier != "thorough" {
		nmp = 9
	}
	type mp struct{ a, b int }
	var allMP []mp
	for a := 0; a < 6; a++ {
		for b := 0; b < 6; b++ {
			allMP = append(allMP, mp{a, b})
		}
	}
	seeds := make([]int64, len(zs))
	for i := range seeds {
		seeds[i] = rng.Int63()
	}

	// (a) trichotomy, antisymmetry, transitivity; (b) coherence; per zone in parallel, split by rows
	type job struct{ zi, row int }
	var jobs []job
	for zi := range zs {
		for i := range strs {
			jobs = append(jobs, job{zi, i})
		}
	}
	// term tables
	tt := make([][][]term, len(zs))
	parallel(len(zs), func(zi int, st *stats) {
		z := zs[zi]
		tt[zi] = make([][]term, len(strs))
		for si, s := range strs {
			tt[zi][si] = make([]term, 6)
			for m := 0; m < 6; m++ {
				t := evalTerm(st, z, s, m, true, false)
				tt[zi][si][m] = t
				st.ev("c17.cast-with-tz", true)
				st.h("zones", z.name)
				if t.err != nil {
					st.h("errors", errClass(t.err))
					if errClass(t.err) != "notrec" || !errors.Is(t.err, exec.ErrVerbose) {
						fail("c17.cast-with-tz", "NONE", obj{"s": s, "method": methodNames[m], "zone": z.name, "options": []string{"WithTZ"}, "doc": s,
							"path": "$." + methodNames[m] + "()"}, "a value or a suppressible format error", errFlags(t.err))
					}
				} else if t.ok {
					st.h("kinds", kindNames[kindOf(t.v)])
				}
			}
			chkContextZone(st, z, s, tt[zi][si])
		}
	})
	parallel(len(jobs), func(ji int, st *stats) {
		j := jobs[ji]
		z := zs[j.zi]
		r := rand.New(rand.NewSource(seeds[j.zi] + int64(j.row)))
		a := strs[j.row]
		for bi, b := range strs {
			perm := r.Perm(len(allMP))
			chosen := map[mp]bool{{5, 5}: true}
			for _, pi := range perm {
				if len(chosen) >= nmp {
					break
				}
				chosen[allMP[pi]] = true
			}
			for _, p := range allMP {
				if !chosen[p] {
					continue
				}
				mirror := j.row*6+p.a <= bi*6+p.b
				chkPairT(st, z, a, b, p.a, p.b, tt[j.zi][j.row][p.a], tt[j.zi][bi][p.b], mirror)
			}
			chkCoherence(st, z, a, b)
		}
	})
	// transitivity over the distinct values of each zone
	maxV := 90
	if tier == "thorough" {
		maxV = 220
	}
	parallel(len(zs), func(zi int, st *stats) {
		z := zs[zi]
		r := rand.New(rand.NewSource(seeds[zi] ^ 0x5bd1e995))
		seen := map[string]bool{}
		var fam [2][]tval
		for si, s := range strs {
			for m := 0; m < 6; m++ {
				t := tt[zi][si][m]
				if !t.ok {
					continue
				}
				k := encDT(t.v)
				if seen[k] {
					continue
				}
				seen[k] = true
				f := 0
				if timeLike(kindOf(t.v)) {
					f = 1
				}
				fam[f] = append(fam[f], tval{s, m, t.v})
			}
		}
		for f := 0; f < 2; f++ {
			vs := fam[f]
			if len(vs) > maxV {
				r.Shuffle(len(vs), func(i, j int) { vs[i], vs[j] = vs[j], vs[i] })
				vs = vs[:maxV]
			}
			n := len(vs)
			mat := make([][]int, n)
			for i := range mat {
				mat[i] = make([]int, n)
				for j := range mat[i] {
					mat[i][j] = cmpT(st, z, vs[i], vs[j])
				}
			}
			for i := 0; i < n; i++ {
				for j := 0; j < n; j++ {
					if !le(mat[i][j]) {
						continue
					}
					for k := 0; k < n; k++ {
						chkTriple(st, z, vs[i], vs[j], vs[k], mat[i][j], mat[j][k], mat[i][k])
					}
				}
			}
		}
	})
	// (c) without WithTZ
	parallel(len(zs), func(zi int, st *stats) {
		z := zs[zi]
		for _, s := range strs {
			for m := 0; m < 6; m++ {
				chkNoTZCast(st, z, s, m)
			}
		}
		if zi%3 == 0 || tier == "thorough" {
			for _, a := range strs {
				for _, b := range strs {
					chkNoTZCompare(st, z, a, b)
				}
			}
		}
	})
	// (d) type and precision, (e) documented forms
	parallel(len(zs), func(zi int, st *stats) {
		z := zs[zi]
		if zi < 2 {
			for _, s := range strs {
				for _, o := range []any{float64(1), "x", s, true, map[string]any{}} {
					chkVsOther(st, z, s, o)
				}
			}
		}
		for want, forms := range isoForms {
			for _, s := range forms {
				chkType(st, z, s, want)
			}
		}
		for _, s := range strs {
			if k := shape(s); k >= 0 {
				chkType(st, z, s, k)
			}
		}
		if zi > 2 && tier != "thorough" {
			return
		}
		var ps []string
		for _, in := range instants {
			if strings.HasPrefix(in.date, "0000") {
				continue
			}
			for _, f := range fracs {
				if strings.HasPrefix(f, ",") {
					continue
				}
				ps = append(ps, in.clock+f, in.date+"T"+in.clock+f, in.clock+f+"+05:30", in.date+"T"+in.clock+f+"-08", in.date+" "+in.clock+f+"Z")
			}
		}
		ps = append(ps, strs...)
		for _, s := range ps {
			for m := 1; m <= 4; m++ {
				for _, p := range []int{0, 1, 2, 3, 4, 5, 6, 7, 8, 9, 12} {
					chkPrecision(st, z, s, m, p)
				}
			}
		}
	})
}

// ---------------------------------------------------------------- C18

var isoRE = []*regexp.Regexp{
	regexp.MustCompile(`^\d{4}-(0[1-9]|1[0-2])-(0[1-9]|[12]\d|3[01])$`),
	regexp.MustCompile(`^([01]\d|2[0-3]):[0-5]\d:[0-5]\d(\.\d{1,9})?$`),
	regexp.MustCompile(`^([01]\d|2[0-3]):[0-5]\d:[0-5]\d(\.\d{1,9})?[+-]\d{2}:[0-5]\d$`),
	regexp.MustCompile(`^\d{4}-(0[1-9]|1[0-2])-(0[1-9]|[12]\d|3[01])T([01]\d|2[0-3]):[0-5]\d:[0-5]\d(\.\d{1,9})?$`),
	regexp.MustCompile(`^\d{4}-(0[1-9]|1[0-2])-(0[1-9]|[12]\d|3[01])T([01]\d|2[0-3]):[0-5]\d:[0-5]\d(\.\d{1,9})?[+-]\d{2}:[0-5]\d$`),
}

func newOf(kind int) types.DateTime {
	switch kind {
	case 0:
		return &types.Date{}
	case 1:
		return &types.Time{}
	case 2:
		return &types.TimeTZ{}
	case 3:
		return &types.Timestamp{}
	}
	return &types.TimestampTZ{}
}

func sameValue(v, w types.DateTime) bool {
	if fmt.Sprintf("%T", v) != fmt.Sprintf("%T", w) {
		return false
	}
	_, o1 := v.GoTime().Zone()
	_, o2 := w.GoTime().Zone()
	return v.GoTime().Equal(w.GoTime()) && o1 == o2
}

func descr(v types.DateTime) string {
	if v == nil {
		return "nil"
	}
	return fmt.Sprintf("%T %s (%s)", v, v.String(), encDT(v))
}

// chkRoundTrip: String / ParseTime / JSON / .string() on one stored value.
func chkRoundTrip(st *stats, v types.DateTime) {
	k := kindOf(v)
	utc := pzone{"UTC", time.UTC, true}
	var s string
	in := obj{"value": encDT(v), "type": kindNames[k]}
	st.ev("c18.roundtrip", true)
	st.h("kinds", kindNames[k])
	_, off := v.GoTime().Zone()
	if k == 2 || k == 4 {
		st.h("offsets", fixedName(off))
	}
	bad := func(what, expected, observed string) {
		i2 := obj{"step": what}
		for kk, vv := range in {
			i2[kk] = vv
		}
		fail("c18.roundtrip", "NONE", i2, expected, observed)
	}
	func() {
		defer func() {
			if r := recover(); r != nil {
				bad("panic", "no panic", fmt.Sprint(r))
			}
		}()
		s = v.String()
		in["string"] = s
		ok := true
		if !isoRE[k].MatchString(s) {
			bad("String() is ISO-8601", isoRE[k].String(), s)
			ok = false
		}
		p, pok := types.ParseTime(context.Background(), s, -1)
		if !pok || !sameValue(v, p) {
			bad("ParseTime(String(v), -1)", descr(v), descr(p))
			ok = false
		}
		b, err := json.Marshal(v)
		if err != nil {
			bad("json.Marshal", "no error", err.Error())
			return
		}
		w := newOf(k)
		if err := json.Unmarshal(b, w); err != nil {
			bad("json.Unmarshal(json.Marshal(v))", descr(v), "error: "+err.Error()+" on "+string(b))
			ok = false
		} else if !sameValue(v, w) {
			bad("json.Unmarshal(json.Marshal(v))", descr(v), descr(w)+" from "+string(b))
			ok = false
		}
		st.h("frac_digits", strconv.Itoa(len(strings.TrimRight(fmt.Sprintf("%09d", v.GoTime().Nanosecond()), "0"))))
		for _, q := range [][2]any{{"$.string()", v}, {"$." + methodNames[k] + "().string()", s}, {"$.datetime().string()", s}} {
			r, err := query(st, q[0].(string), utc, q[1], false, false)
			if err != nil || len(r) != 1 || r[0] != s {
				bad(fmt.Sprintf("Query(%q) on %v", q[0], q[1]), s, fmt.Sprintf("%v %v", r, err))
				ok = false
			}
		}
		if ok {
			sample("c18.roundtrip."+kindNames[k], in, obj{"string": s, "json": string(b)})
		}
	}()
}

// chkHostile: UnmarshalJSON(data) for the five types, directly and through json.Unmarshal.
func chkHostile(st *stats, data []byte) {
	valid := json.Valid(data)
	trimmed := strings.TrimLeft(string(data), " \t\r\n")
	nonString := valid && !strings.HasPrefix(trimmed, `"`)
	accepted := false
	for k := 0; k < 5; k++ {
		for _, via := range []string{"direct", "json.Unmarshal"} {
			res, msg := "ok", ""
			var v types.DateTime
			func() {
				defer func() {
					if r := recover(); r != nil {
						res, msg = "panic", fmt.Sprint(r)
					}
				}()
				v = newOf(k)
				var err error
				if via == "direct" {
					err = v.(json.Unmarshaler).UnmarshalJSON(data)
				} else {
					err = json.Unmarshal(data, v)
				}
				if err != nil {
					res, msg = "err", err.Error()
				}
			}()
			st.h("unmarshal", res)
			if res == "ok" {
				accepted = true
				msg = descr(v)
			}
			in := obj{"type": kindNames[k], "via": via, "data_hex": hex.EncodeToString(data), "data": string(data)}
			switch {
			case res == "panic":
				fail("c18.hostile", "NONE", in, "an error, not a panic", "panic: "+msg)
			case nonString && res != "err":
				fail("c18.hostile", "NONE", in, "an error (the JSON value is not a string)", res+" "+msg)
			case via == "json.Unmarshal" && !valid && res != "err":
				fail("c18.hostile", "NONE", in, "an error (invalid JSON)", res+" "+msg)
			}
		}
	}
	st.ev("c18.hostile", accepted)
	if accepted {
		sample("c18.hostile.accepted", obj{"data": string(data)}, "accepted by at least one type")
	} else {
		sample("c18.hostile.rejected", obj{"data": string(data), "data_hex": hex.EncodeToString(data)}, "error from all five types, no panic")
	}
}

// chkConv: date -> timestamptz -> date, timestamp -> timestamptz -> timestamp in zone z.
func chkConv(st *stats, z pzone, v types.DateTime) {
	k := kindOf(v)
	if k != 0 && k != 3 {
		return
	}
	if !exists(z, v) {
		st.h("conv", "skipped-nonexistent-local-time")
		return
	}
	ctx := z.ctx()
	st.ev("c18.conv", true)
	st.h("zones", z.name)
	in := obj{"value": encDT(v), "type": kindNames[k], "string": v.String(), "zone": z.name}
	var mid *types.TimestampTZ
	var back types.DateTime
	func() {
		defer func() {
			if r := recover(); r != nil {
				fail("c18.conv", "NONE", in, "no panic", fmt.Sprint(r))
			}
		}()
		if d, ok := v.(*types.Date); ok {
			mid = d.ToTimestampTZ(ctx)
			back = mid.ToDate(ctx)
		} else {
			mid = v.(*types.Timestamp).ToTimestampTZ(ctx)
			back = mid.ToTimestamp(ctx)
		}
	}()
	if back == nil {
		return
	}
	if !sameValue(v, back) {
		in["step"] = "To* methods"
		fail("c18.conv", "NONE", in, descr(v), descr(back)+" via "+descr(mid))
		return
	}
	// through paths (the intermediate value travels as text, which keeps whole-minute offsets only)
	_, off := mid.GoTime().Zone()
	if off%60 != 0 {
		st.h("conv", "path-leg-skipped-offset-with-seconds")
		return
	}
	s := v.String()
	r1, err := query(st, "$.timestamp_tz().string()", z, s, true, false)
	if err != nil || len(r1) != 1 {
		in["step"] = "Query($.timestamp_tz().string())"
		fail("c18.conv", "NONE", in, mid.String(), fmt.Sprintf("%v %v", r1, err))
		return
	}
	r2, err := query(st, "$."+methodNames[k]+"().string()", z, r1[0], true, false)
	if err != nil || len(r2) != 1 || r2[0] != s {
		in["step"] = fmt.Sprintf("Query($.%s().string()) on %v", methodNames[k], r1[0])
		fail("c18.conv", "NONE", in, s, fmt.Sprintf("%v %v", r2, err))
		return
	}
	sample("c18.conv."+kindNames[k], in, obj{"timestamptz": r1[0], "back": r2[0]})
}

func c18Offsets(tier string) []int {
	var r []int
	step := 15
	if tier == "thorough" {
		step = 1
	}
	for m := -12 * 60; m <= 14*60; m += step {
		r = append(r, m*60)
	}
	if tier != "thorough" {
		for _, m := range []int{-719, -601, -1, 1, 59, 61, 347, 839} {
			r = append(r, m*60)
		}
	}
	return r
}

var c18Nanos = []int{0, 100000000, 120000000, 123000000, 123400000, 123450000, 123456000, 123456700, 123456780, 123456789,
	999999999, 1, 999999500, 500000000, 10}

func c18Instants() []time.Time {
	var r []time.Time
	for _, s := range []string{
		"0001-01-01 00:00:00", "0001-01-01 23:59:59", "0001-12-31 23:59:59", "9999-12-31 23:59:59", "9999-12-31 00:00:00", "9999-01-01 00:00:00",
		"1969-12-31 23:59:59", "1970-01-01 00:00:00", "2000-02-29 12:00:00", "1900-02-28 23:59:59", "1900-03-01 00:00:00", "2024-02-29 00:00:00",
		"2038-01-19 03:14:07", "2038-01-19 03:14:08", "1582-10-15 00:00:00", "2023-08-15 12:34:56", "0100-03-01 01:02:03", "1000-10-10 10:10:10",
		"2021-03-14 02:30:00", "2021-11-07 01:30:00", "2011-12-30 00:00:00", "1883-11-18 12:00:00",
	} {
		t, err := time.Parse("2006-01-02 15:04:05", s)
		if err != nil {
			panic(err)
		}
		r = append(r, t)
	}
	return r
}

func hostileInputs(tier string, rng *rand.Rand) [][]byte {
	var hs []string
	// JSON token kinds
	hs = append(hs, `0`, `1`, `-1`, `12`, `1.5`, `-0.0`, `1e9`, `1E-2`, `20230102`, `123456789`, `1234567890123`, `-12345678`, `9999999999999999999999`,
		`true`, `false`, `null`, ` null`, `null `, `[]`, `[1]`, `["2023-01-02"]`, `[null]`, `{}`, `{"a":1}`, `{"2023-01-02":"2023-01-02"}`,
		`""`, `" "`, `"2"`, `"2023-01-02"`, `"12:34:56+01:00"`, `"\""`, `"\\"`, `"\n"`, `"null"`, `"true"`, `"0"`,
		``, ` `, `"`, `""`+`"`, `'`, `''`, `'2023-01-02'`, `"2023-01-02`, `2023-01-02"`, `2023-01-02`, `12:34:56`, `12:34:56+01:00`,
		"\xff", "\"\xff\"", "\"\xc3\x28\"", "\"\xed\xa0\x80\"", "\"12:34:56\xff\"", "\"\x00\"", "\x00", "\"12:34:56\x00+01:00\"",
		`"2023-01-02T03:04:05+"`, `"2023-01-02T03:04:05-"`, `"12:34:56+"`, `"12:34:56-"`, `"+"`, `"-"`, `"+01"`, `"-01:00"`, `"+01:00:00"`, `"Z"`, `"T"`)
	// every string of length 0..4 over a small alphabet, quoted and bare
	alpha := []byte{'+', '-', '1', ':', 'Z'}
	var rec func(prefix []byte, n int)
	rec = func(prefix []byte, n int) {
		hs = append(hs, `"`+string(prefix)+`"`)
		if len(prefix) <= 3 {
			hs = append(hs, string(prefix))
		}
		if n == 0 {
			return
		}
		for _, c := range alpha {
			rec(append(append([]byte{}, prefix...), c), n-1)
		}
	}
	rec(nil, 4)
	// lengths 5..12: a sign at every position (the probed positions are 6 and 9 from the end), any tail
	for n := 5; n <= 12; n++ {
		for pos := 0; pos < n; pos++ {
			for _, c := range []byte{'+', '-'} {
				for _, fill := range []byte{'1', ':', '0'} {
					b := []byte(strings.Repeat(string(fill), n))
					b[pos] = c
					hs = append(hs, `"`+string(b)+`"`, string(b))
					b[n-1] = c
					hs = append(hs, `"`+string(b)+`"`)
				}
			}
		}
	}
	// cuts and sign substitutions of valid values
	for _, base := range []string{`"12:34:56.123+05:30"`, `"2023-01-02T03:04:05.123+05:30"`, `"12:34:56"`, `"2023-01-02T03:04:05"`, `"2023-01-02"`, `"12:34:56-08"`, `"12:34:56+05:30:15"`} {
		for cut := 0; cut <= len(base); cut++ {
			hs = append(hs, base[:cut], base[cut:])
			if cut > 0 && cut < len(base) {
				hs = append(hs, base[:cut]+`"`)
			}
		}
		for pos := 1; pos < len(base)-1; pos++ {
			for _, c := range []byte{'+', '-', '"', 'Z'} {
				b := []byte(base)
				b[pos] = c
				hs = append(hs, string(b))
			}
		}
	}
	n := 6000
	if tier == "thorough" {
		n = 120000
	}
	g := rgen{rng}
	for i := 0; i < n; i++ {
		switch rng.Intn(3) {
		case 0:
			b := make([]byte, rng.Intn(16))
			for j := range b {
				b[j] = byte(rng.Intn(256))
			}
			if rng.Intn(2) == 0 {
				b = append(append([]byte{'"'}, b...), '"')
			}
			hs = append(hs, string(b))
		default:
			hs = append(hs, g.hostile())
		}
	}
	seen := map[string]bool{}
	var res [][]byte
	for _, h := range hs {
		if !seen[h] {
			seen[h] = true
			res = append(res, []byte(h))
		}
	}
	return res
}

var c18NamedZones = []string{"America/New_York", "Australia/Lord_Howe", "Pacific/Apia", "America/Havana"}

func runC18(tier string, seed int64) {
	rng := rand.New(rand.NewSource(seed))
	// (a) the value grid
	offs := c18Offsets(tier)
	insts := c18Instants()
	if tier == "thorough" {
		g := rgen{rng}
		for i := 0; i < 40; i++ {
			d, c := g.civil()
			if t, err := time.Parse("2006-01-02 15:04:05", d+" "+c); err == nil && t.Year() >= 1 {
				insts = append(insts, t)
			}
		}
	}
	parallel(len(insts), func(ii int, st *stats) {
		b := insts[ii]
		seen := map[string]bool{}
		for _, ns := range c18Nanos {
			for _, o := range offs {
				t := time.Date(b.Year(), b.Month(), b.Day(), b.Hour(), b.Minute(), b.Second(), ns, time.FixedZone("", o))
				for _, v := range []types.DateTime{types.NewDate(t), types.NewTime(t), types.NewTimeTZ(t), types.NewTimestamp(t),
					types.NewTimestampTZ(context.Background(), t)} {
					k := encDT(v)
					if seen[k] {
						continue
					}
					seen[k] = true
					chkRoundTrip(st, v)
				}
			}
		}
	})
	// random values
	nr := 3000
	if tier == "thorough" {
		nr = 60000
	}
	var rv []types.DateTime
	g := rgen{rng}
	seenV := map[string]bool{}
	for i := 0; i < nr; i++ {
		v := g.value(rng.Intn(5))
		_, off := v.GoTime().Zone()
		y := v.GoTime().Year()
		k := kindOf(v)
		if off%60 != 0 || ((k == 0 || k == 3 || k == 4) && (y < 1 || y > 9999)) || seenV[encDT(v)] {
			continue
		}
		seenV[encDT(v)] = true
		rv = append(rv, v)
	}
	chunk := 500
	parallel((len(rv)+chunk-1)/chunk, func(ci int, st *stats) {
		for i := ci * chunk; i < len(rv) && i < (ci+1)*chunk; i++ {
			chkRoundTrip(st, rv[i])
		}
	})
	// (b) hostile input
	hs := hostileInputs(tier, rng)
	parallel((len(hs)+chunk-1)/chunk, func(ci int, st *stats) {
		for i := ci * chunk; i < len(hs) && i < (ci+1)*chunk; i++ {
			chkHostile(st, hs[i])
		}
	})
	// (c) conversions commute with the context zone
	var zs []pzone
	for _, o := range offs {
		zs = append(zs, parseZone(fixedName(o)))
	}
	for _, n := range c18NamedZones {
		zs = append(zs, parseZone(n))
	}
	var common []types.DateTime
	for _, b := range insts {
		common = append(common, types.NewDate(b), types.NewTimestamp(b), types.NewTimestamp(b.Add(123456789)))
	}
	for i := 0; i < 150; i++ {
		common = append(common, g.value(0), g.value(3))
	}
	parallel(len(zs), func(zi int, st *stats) {
		z := zs[zi]
		for _, v := range common {
			y := v.GoTime().Year()
			if y < 1 || y > 9999 {
				continue
			}
			chkConv(st, z, v)
		}
		if z.fixed {
			return
		}
		// every day 2009..2023 as a date; every 15 minutes around each transition as a timestamp
		day := time.Date(2009, 1, 1, 0, 0, 0, 0, time.UTC)
		end := time.Date(2024, 1, 1, 0, 0, 0, 0, time.UTC)
		for ; day.Before(end); day = day.AddDate(0, 0, 1) {
			chkConv(st, z, types.NewDate(day))
			_, o1 := day.In(z.loc).Zone()
			_, o2 := day.Add(24 * time.Hour).In(z.loc).Zone()
			if o1 == o2 {
				continue
			}
			for m := -24 * 60; m < 48*60; m += 15 {
				chkConv(st, z, types.NewTimestamp(day.Add(time.Duration(m)*time.Minute)))
				if m%60 == 0 {
					chkConv(st, z, types.NewTimestamp(day.Add(time.Duration(m)*time.Minute+999999999)))
				}
			}
		}
	})
}

// ---------------------------------------------------------------- drivers

func finish() int {
	gmu.Lock()
	defer gmu.Unlock()
	_ = outJ.Encode(obj{"t": "stat", "evaluations": gstats.evals, "distinct_nontrivial": gstats.nontrivial, "queries": gstats.queries, "fail_counts": failCount})
	var names []string
	for n := range gstats.hist {
		names = append(names, n)
	}
	sort.Strings(names)
	for _, n := range names {
		_ = outJ.Encode(obj{"t": "hist", "name": n, "counts": gstats.hist[n]})
	}
	return 0
}

func runProps(prop, tier string, seed int64, corpus string) int {
	if corpus != "" {
		runCorpus(corpus)
	}
	switch prop {
	case "C17":
		runC17(tier, seed)
	case "C18":
		runC18(tier, seed)
	default:
		fmt.Fprintln(os.Stderr, "unknown property", prop)
		return 2
	}
	return finish()
}

// runOne evaluates one named check on an explicit input.
func runOne(st *stats, check string, in map[string]any) {
	str := func(k string) string { s, _ := in[k].(string); return s }
	defer func() {
		if r := recover(); r != nil {
			fail("harness.panic", "NONE", in, "the check runs", fmt.Sprint(r))
		}
	}()
	var z pzone
	if str("zone") != "" {
		z = parseZone(str("zone"))
	} else {
		z = parseZone("UTC")
	}
	switch check {
	case "c17.trichotomy", "c17.antisymmetry":
		chkPair(st, z, str("a"), str("b"), methodIndex(str("m1")), methodIndex(str("m2")), true)
	case "c17.transitivity":
		replayTriple(st, z, in)
	case "c17.cast-coherence":
		chkCoherence(st, z, str("a"), str("b"))
	case "c17.cast-with-tz":
		t := evalTerm(st, z, str("s"), methodIndex(str("method")), true, false)
		st.ev(check, true)
		if t.err != nil && (errClass(t.err) != "notrec" || !errors.Is(t.err, exec.ErrVerbose)) {
			fail("c17.cast-with-tz", "NONE", in, "a value or a suppressible format error", errFlags(t.err))
		}
	case "c17.context-zone":
		row := make([]term, 6)
		for m := 0; m < 6; m++ {
			row[m] = evalTerm(st, z, str("s"), m, true, false)
		}
		chkContextZone(st, z, str("s"), row)
	case "c17.notz-cast":
		chkNoTZCast(st, z, str("s"), methodIndex(str("method")))
	case "c17.notz-compare":
		chkNoTZCompare(st, z, str("a"), str("b"))
	case "c17.datetime-vs-other":
		var other any
		if err := json.Unmarshal([]byte(str("other_json")), &other); err != nil {
			panic(err)
		}
		chkVsOther(st, z, str("s"), other)
	case "c17.type":
		want := -1
		for i, n := range typeNames {
			if n == str("type") {
				want = i
			}
		}
		chkType(st, z, str("s"), want)
	case "c17.precision":
		p, _ := in["precision"].(float64)
		chkPrecision(st, z, str("s"), methodIndex(str("method")), int(p))
	case "c18.roundtrip":
		chkRoundTrip(st, mkValue(str("value")))
	case "c18.hostile":
		data, err := hex.DecodeString(str("data_hex"))
		if err != nil {
			panic(err)
		}
		chkHostile(st, data)
	case "c18.conv":
		chkConv(st, z, mkValue(str("value")))
	case "corpus.query":
		chkCorpusQuery(st, in)
	default:
		fail("harness.unknown-check", "NONE", in, "a known check", check)
	}
}

// chkCorpusQuery runs a corpus line of the framework's generic form
// {"text": path, "doc": JSON text, "tz": zone}: no panic, and no ErrInvalid
// (ErrInvalid from a datetime compared with another item is a listed finding).
func chkCorpusQuery(st *stats, in map[string]any) {
	text, _ := in["text"].(string)
	docText, _ := in["doc"].(string)
	zn, _ := in["tz"].(string)
	if zn == "" {
		zn = "UTC"
	}
	var doc any
	if err := json.Unmarshal([]byte(docText), &doc); err != nil {
		return
	}
	if _, err := path.Parse(text); err != nil {
		return
	}
	z := parseZone(zn)
	st.ev("corpus.query", true)
	for _, useTZ := range []bool{true, false} {
		_, err := query(st, text, z, doc, useTZ, false)
		if err == nil {
			continue
		}
		opts := []string{}
		if useTZ {
			opts = []string{"WithTZ"}
		}
		i2 := obj{"text": text, "doc": docText, "tz": zn, "options": opts}
		switch {
		case errClass(err) == "panic":
			fail("corpus.query", "NONE", i2, "no panic", err.Error())
		case errors.Is(err, exec.ErrInvalid):
			class := "NONE"
			if strings.Contains(err.Error(), "unrecognized SQL/JSON datetime type") {
				class = "C05-errinvalid-datetime-compare"
			}
			fail("corpus.query", class, i2, "a result or a classified execution error", errFlags(err))
		}
	}
}

// runCorpus evaluates every line of a JSON-lines file: {"check":..,"input":..}
// (a check of this file) or {"text":..,"doc":..} (a plain query).
func runCorpus(file string) {
	f, err := os.Open(file)
	if err != nil {
		return
	}
	defer f.Close()
	st := newStats()
	d := json.NewDecoder(f)
	for {
		var rp map[string]any
		if err := d.Decode(&rp); err != nil {
			break
		}
		func() {
			defer func() {
				if r := recover(); r != nil {
					fail("harness.panic", "NONE", rp, "the corpus line runs", fmt.Sprint(r))
				}
			}()
			if c, ok := rp["check"].(string); ok {
				in, _ := rp["input"].(map[string]any)
				st.h("corpus", c)
				runOne(st, c, in)
			} else if _, ok := rp["text"].(string); ok {
				st.h("corpus", "query")
				chkCorpusQuery(st, rp)
			}
		}()
	}
	merge(st)
}

func runReplay(file string) int {
	b, err := os.ReadFile(file)
	if err != nil {
		fmt.Fprintln(os.Stderr, err)
		return 2
	}
	var rp struct {
		Check string         `json:"check"`
		Input map[string]any `json:"input"`
	}
	if err := json.Unmarshal(b, &rp); err != nil {
		fmt.Fprintln(os.Stderr, err)
		return 2
	}
	st := newStats()
	runOne(st, rp.Check, rp.Input)
	merge(st)
	return finish()
}
