// f64vec prints test vectors (one per line, tab separated) that pin the
// behaviour of Go's float64 / strconv / math / encoding/json on this machine.
// check.sh turns them into Coq tests for SJ.lib.F64 and SJ.lib.Strconv.
//
// Line format:  op <TAB> arg ... <TAB> expected
// Floats are written as their IEEE-754 bit pattern in decimal; every NaN is
// written as 0x7FF8000000000001.  Strings are written between double quotes
// and only contain printable ASCII without '"' or '\'.
//
// Usage: go run . [-small]      (-small: ~100 vectors for F64Test.v)
package main

import (
	"bufio"
	"encoding/json"
	"fmt"
	"math"
	"math/big"
	"math/rand"
	"os"
	"strconv"
	"strings"
)

var out = bufio.NewWriter(os.Stdout)

const nanBits = 0x7FF8000000000001

func fb(f float64) string {
	if math.IsNaN(f) {
		return strconv.FormatUint(nanBits, 10)
	}
	return strconv.FormatUint(math.Float64bits(f), 10)
}

func q(s string) string {
	for i := 0; i < len(s); i++ {
		c := s[i]
		if c < 0x20 || c > 0x7e || c == '"' || c == '\\' {
			panic(fmt.Sprintf("unsupported test string %q", s))
		}
	}
	return "\"" + s + "\""
}

func emit(fields ...string) {
	out.WriteString(strings.Join(fields, "\t"))
	out.WriteByte('\n')
}

func bs(b bool) string {
	if b {
		return "true"
	}
	return "false"
}

func fromBits(b uint64) float64 { return math.Float64frombits(b) }

// ---------------------------------------------------------------- corpora

func specials() []float64 {
	big1e308x10 := 1e308
	big1e308x10 *= 10
	l := []float64{
		0, math.Copysign(0, -1), 1, -1, 0.5, -0.5, 1.5, -1.5, 2.5, -2.5, 3.5,
		0.1, 0.2, 0.3, 1e-7, 1e-6, 9.999999e-7, 1e21, 1e22, 1e23, 9.999999999999999e20,
		1 << 53, 1<<53 - 1, 1<<53 + 2, -(1 << 53), 1 << 63, -(1 << 63),
		9223372036854774784, -9223372036854774784, 9223372036854777856,
		4294967296, 2147483647, 2147483648, -2147483648, -2147483649, 2147483647.5,
		math.MaxFloat64, -math.MaxFloat64, math.SmallestNonzeroFloat64, -math.SmallestNonzeroFloat64,
		fromBits(2), fromBits(3), fromBits(0x000FFFFFFFFFFFFF), fromBits(0x0010000000000000),
		fromBits(0x0010000000000001), fromBits(0x7FEFFFFFFFFFFFFE),
		0.49999999999999994, 0.5000000000000001, 4503599627370495.5, 4503599627370496.5,
		4503599627370497.5, 1e15, 1e15 + 0.5, 123456.789, -123456.789, 3, 7, 10, 100, 1e308,
		big1e308x10, math.Inf(1), math.Inf(-1), math.NaN(), 2, -2, 1e-320, 1e-310, 5e-309,
		0.30000000000000004, 1.0000000000000002, 0.9999999999999999, 12.5, 0.75, -0.75, 1e16, 1e-5,
	}
	return l
}

func randomFloats(r *rand.Rand, n int) []float64 {
	l := make([]float64, 0, n)
	for i := 0; i < n; i++ {
		switch i % 5 {
		case 0, 1: // raw bit patterns
			l = append(l, fromBits(r.Uint64()))
		case 2: // moderate magnitude
			l = append(l, (r.Float64()-0.5)*math.Pow(10, float64(r.Intn(40)-20)))
		case 3: // short decimals
			l = append(l, float64(r.Intn(2000000)-1000000)/math.Pow(10, float64(r.Intn(7))))
		case 4: // subnormals and near-overflow
			if r.Intn(2) == 0 {
				l = append(l, fromBits(r.Uint64()&0x000FFFFFFFFFFFFF|uint64(r.Intn(2))<<63))
			} else {
				l = append(l, fromBits(0x7FD0000000000000|r.Uint64()&0x001FFFFFFFFFFFFF))
			}
		}
	}
	return l
}

// ---------------------------------------------------------------- emitters

func cmpStr(a, b float64) string {
	switch {
	case math.IsNaN(a) || math.IsNaN(b):
		return "none"
	case a < b:
		return "lt"
	case a > b:
		return "gt"
	default:
		return "eq"
	}
}

func binops(a, b float64) {
	emit("add", fb(a), fb(b), fb(a+b))
	emit("sub", fb(a), fb(b), fb(a-b))
	emit("mul", fb(a), fb(b), fb(a*b))
	emit("div", fb(a), fb(b), fb(a/b))
	emit("mod", fb(a), fb(b), fb(math.Mod(a, b)))
	emit("cmp", fb(a), fb(b), cmpStr(a, b))
}

func relops(a, b float64) {
	emit("eqb", fb(a), fb(b), bs(a == b))
	emit("ltb", fb(a), fb(b), bs(a < b))
	emit("leb", fb(a), fb(b), bs(a <= b))
}

func toZExact(f float64) string {
	if math.IsNaN(f) || math.IsInf(f, 0) || f != math.Trunc(f) {
		return "none"
	}
	z, _ := new(big.Float).SetFloat64(f).Int(nil)
	return z.String()
}

//go:noinline
func toInt64(f float64) int64 { return int64(f) }

func unops(a float64) {
	emit("neg", fb(a), fb(-a))
	emit("abs", fb(a), fb(math.Abs(a)))
	emit("floor", fb(a), fb(math.Floor(a)))
	emit("ceil", fb(a), fb(math.Ceil(a)))
	emit("trunc", fb(a), fb(math.Trunc(a)))
	emit("round", fb(a), fb(math.Round(a)))
	emit("isnan", fb(a), bs(math.IsNaN(a)))
	emit("isinf", fb(a), bs(math.IsInf(a, 0)))
	emit("iszero", fb(a), bs(a == 0))
	emit("toint64", fb(a), strconv.FormatInt(toInt64(a), 10))
	emit("toz", fb(a), toZExact(a))
	emit("bitsrt", fb(a))
}

func fmtops(a float64) {
	emit("fmtf", fb(a), q(strconv.FormatFloat(a, 'f', -1, 64)))
	emit("fmte", fb(a), q(strconv.FormatFloat(a, 'e', -1, 64)))
	if !math.IsNaN(a) && !math.IsInf(a, 0) {
		b, err := json.Marshal(a)
		if err != nil {
			panic(err)
		}
		emit("fmtjson", fb(a), q(string(b)))
		if a != 0 {
			// decimalSlice from the %e text: d.ddddde±xx
			s := strconv.FormatFloat(math.Abs(a), 'e', -1, 64)
			i := strings.IndexByte(s, 'e')
			digs := strings.Replace(s[:i], ".", "", 1)
			e, _ := strconv.Atoi(s[i+1:])
			emit("shortest", fb(a), q(digs), strconv.Itoa(e+1))
		}
	}
	// shortest output must parse back to the same float
	pf(strconv.FormatFloat(a, 'f', -1, 64))
}

func pf(s string) {
	v, err := strconv.ParseFloat(s, 64)
	switch {
	case err == nil:
		emit("parsefloat", q(s), "ok", fb(v))
	case err.(*strconv.NumError).Err == strconv.ErrRange:
		emit("parsefloat", q(s), "range", fb(v))
	default:
		emit("parsefloat", q(s), "err")
	}
}

func pi(s string, base, bits int) {
	v, err := strconv.ParseInt(s, base, bits)
	if err != nil {
		emit("parseint", strconv.Itoa(base), strconv.Itoa(bits), q(s), "none")
	} else {
		emit("parseint", strconv.Itoa(base), strconv.Itoa(bits), q(s), strconv.FormatInt(v, 10))
	}
}

func intops(z int64) {
	emit("ofz", strconv.FormatInt(z, 10), fb(float64(z)))
	emit("fmtint", strconv.FormatInt(z, 10), q(strconv.FormatInt(z, 10)))
	pi(strconv.FormatInt(z, 10), 10, 64)
	pi(strconv.FormatInt(z, 10), 10, 32)
	pi(strconv.FormatInt(z, 10), 0, 64)
}

var floatStrings = []string{
	"1e400", "1_000.5", "0x1p-2", "inf", "-Infinity", "nan", " 1", "1 ", "", ".", "1e", "+.5e-3",
	"0", "-0", "+0", "0.0", "-0.0e5", "00012", "0.000", "1", "-1", "1.", ".1", "1.5", "1e5", "1E5", "1e+5", "1e-5",
	"1e310", "1e309", "1e308", "1.8e308", "1.7976931348623157e308", "1.7976931348623158e308",
	"1.7976931348623159e308", "179769313486231580793728971405303415079934132710037826936173778980444968292764750946649017977587207096330286416692887910946555547851940402630657488671505820681908902000708383676273854845817711531764475730270069855571366959622842914819860834936475292719074168444365510704342711559699508093042880177904174497791.999999999999999999999999999",
	"179769313486231580793728971405303415079934132710037826936173778980444968292764750946649017977587207096330286416692887910946555547851940402630657488671505820681908902000708383676273854845817711531764475730270069855571366959622842914819860834936475292719074168444365510704342711559699508093042880177904174497792",
	"4.9e-324", "5e-324", "2e-324", "3e-324", "2.4703282292062327e-324", "2.4703282292062328e-324",
	"2.4703282292062327208828439643411068618252990130716238221279284125033775363510437593264991818081799618989828234772285886546332835517796989819938739800539093906315035659515570226392290858392449105184435931802849936536152500319370457678249219365623669863658480757001585769269903706311928279558551332927834338409351978015531246597263579574622766465272827220056374006485499977096599470454020828166226237857393450736339007967761930577506740176324673600968951340535537458516661134223766678604162159680461914467291840300530057530849048765391711386591646239524912623653881879636239373280423891018672348497668235089863388587925628302755995657524455507255189313690836254779186948667994968324049705821028513185451396213837722826145437693412532098591327667236328125e-324",
	"2.47032822920623272088284396434110686182529901307162382212792841250337753635104375932649918180817996189898282347722858865463328355177969898199387398005390939063150356595155702263922908583924491051844359318028499365361525003193704576782492193656236698636584807570015857692699037063119282795585513329278343384093519780155312465972635795746227664652728272200563740064854999770965994704540208281662262378573934507363390079677619305775067401763246736009689513405355374585166611342237666786041621596804619144672918403005300575308490487653917113865916462395249126236538818796362393732804238910186723484976682350898633885879256283027559956575244555072551893136908362547791869486679949683240497058210285131854513962138377228261454376934125320985913276672363281251e-324",
	"1.00000000000000011102230246251565404236316680908203125", "1.00000000000000011102230246251565404236316680908203124",
	"1.00000000000000011102230246251565404236316680908203126", "1.00000000000000033306690738754696212708950042724609375",
	"9007199254740993", "9007199254740992.5", "9007199254740993.0000000001", "12345678901234567890", "123456789012345678901234567890",
	"0.000000000000000000000000000000000000000000000000001", "100000000000000000000000000000000000000000000000000",
	"1e23", "8.41e21", "2.2250738585072011e-308", "2.2250738585072014e-308", "2.2250738585072012e-308",
	"6.631236871469758e-316", "3.237883913302901e-319", "1e-320", "1e-323", "1e-324", "1e-400",
	"1e99999", "1e-99999", "1e100000", "1e-100000", "0e99999", "0e-99999", "0.0000000000e100000", "1e00000000000000000000000000001",
	"0x1p0", "0X1P+3", "0x1.8p1", "0x.8p1", "0x8.p-3", "0x1.fffffffffffffp1023", "0x1.fffffffffffff8p1023", "0x1.fffffffffffff7ffffp1023",
	"0x1p1024", "0x1p1023", "-0x1p1024", "0x1.00000000000008p0", "0x1.000000000000081p0", "0x1.00000000000018p0", "0x1.00000000000017ffp0",
	"0x1p-1074", "0x1p-1075", "0x1.8p-1075", "0x1.000001p-1075", "0x1p-1076", "0x0.fffffffffffffp-1022", "0x0.fffffffffffff8p-1022", "0x1p-1022",
	"0x0p0", "-0x0p0", "0x0p99999", "0x1p99999", "0x1p-99999", "0x123456789abcdefp0", "0x123456789abcdef01p0", "0x123456789abcdef011p-4", "0xABCDEFp-10", "0xabcdefP-10",
	"0x_1p0", "0x1_0p0", "0x1p0_0", "0x1p_0", "0x1_p0", "0x1._8p0", "0x1.8_p0", "0x", "0x.", "0x.p1", "0xp1", "0x1", "0x1p", "0x1p+", "0x1p-", "0xgp1", "0x1e3", "0x1e3p0", "0x1.p", "00x1p0", "0x0x1p0",
	"1e5_", "1e_5", "1e5_0", "_1", "1_", "1_.5", "1._5", "1.5_e3", "1e+_3", "1__0", "1_0", "1_0.0_1e1_0", "+_1", "-1_0", ".e1", "e1", "1e+", "1e-", "1.e2", "1..2", "1.2.3", "--1", "+-1", "+", "-", "1e1.5", "1e1e1",
	"infinit", "infinityx", "INF", "+Inf", "-inf", "iNfInItY", "+INFINITY", "inf ", "infi", "in", "i", "NaN", "NAN", "+nan", "-nan", "nanx", "na", "n", "nan0", "-", "1f", "1d", "1x", "0b1", "0o7", "1,5", "1 000",
	"0.1", "0.2", "0.3", "0.30000000000000004", "3.14159", "-2.5", "1e21", "1e-7", "123456789", "+5", "1000000000000000128", "1000000000000000129",
	"8.5", "1e-06", "1.0e+21", "007", "0x8000000000000000", "-9223372036854775808", "9223372036854775808", "0o17", "0b101",
}

var intStrings = []string{
	"", "+", "-", "+5", "-5", "0", "-0", "+0", "00", "007", "08", "09", "0x", "0X1F", "0x1f", "0xg", "0b2", "0b", "0o", "0o8", "0_7", "0x_1", "0_x1",
	"_1", "1_", "1__0", "1_0", "-1_000", "+1_000_000", "0b1_0", "0b_1", "0o1_7", "0__7", "_0x1", "0x1_", "0x1__2",
	"2147483647", "2147483648", "-2147483648", "-2147483649", "4294967295", "4294967296",
	"9223372036854775807", "9223372036854775808", "-9223372036854775808", "-9223372036854775809",
	"18446744073709551615", "18446744073709551616", "99999999999999999999", "-99999999999999999999", "99999999999999999999x",
	"1e3", "1.0", " 1", "1 ", "1 2", "0x7fffffffffffffff", "0x8000000000000000", "-0x8000000000000000", "-0x8000000000000001", "0x7FFFFFFF", "0x80000000", "-0x80000000",
	"0b111111111111111111111111111111111111111111111111111111111111111", "0b1000000000000000000000000000000000000000000000000000000000000000",
	"0777", "0o777", "0O17", "0B11", "0X_ff", "a", "z", "Z", "+-1", "-+1", "++1", "1-", "12a", "0xx1", "00x1", "0b102", "0o18", "1234567890", "-1234567890",
	"000000000000000000000000000001", "-000000000000000000000000000001", "0x000000000000000000001", "@", "`", "{", "[", "/", ":", "0x@", "0x`",
}

func main() {
	small := len(os.Args) > 1 && os.Args[1] == "-small"
	defer out.Flush()
	r := rand.New(rand.NewSource(20240925))
	sp := specials()

	if small {
		pick := []float64{0, math.Copysign(0, -1), 1, -1.5, 2.5, 0.1, 1e-7, 1e21, 1 << 53, -(1 << 63),
			math.MaxFloat64, math.SmallestNonzeroFloat64, math.Inf(1), math.Inf(-1), math.NaN(), 123456.789}
		for i, a := range pick {
			b := pick[(i*7+3)%len(pick)]
			binops(a, b)
		}
		for _, a := range pick[:8] {
			unops(a)
		}
		for _, a := range pick {
			emit("fmtf", fb(a), q(strconv.FormatFloat(a, 'f', -1, 64)))
		}
		for _, a := range []float64{0, 1e-7, 1e21, 1e20, 1e-6, 123456.789, -2.5e-10, math.MaxFloat64, 5e-324} {
			b, _ := json.Marshal(a)
			emit("fmtjson", fb(a), q(string(b)))
		}
		for _, s := range floatStrings[:16] {
			pf(s)
		}
		for _, s := range []string{"0x1.8p1", "1e23", "9007199254740993", "2.4703282292062328e-324", "1.7976931348623159e308", "+nan", "1__0", "Infinity"} {
			pf(s)
		}
		for _, s := range []string{"0x8000000000000000", "-9223372036854775808", "9223372036854775808", "007", "0o17", "0b101", "1__0", "1_0", "", "-", "2147483648"} {
			pi(s, 0, 64)
			pi(s, 10, 64)
			pi(s, 10, 32)
		}
		for _, n := range []int{0, 1, 5, 22, 23, 100, 308, 309, -1, -5, -323, -324} {
			emit("pow10", strconv.Itoa(n), fb(math.Pow10(n)))
		}
		for _, z := range []int64{0, 1, -1, math.MaxInt64, math.MinInt64, 9007199254740993} {
			emit("ofz", strconv.FormatInt(z, 10), fb(float64(z)))
			emit("fmtint", strconv.FormatInt(z, 10), q(strconv.FormatInt(z, 10)))
		}
		return
	}

	// binary operations: all pairs of specials, plus random and near pairs
	for _, a := range sp {
		for _, b := range sp {
			binops(a, b)
		}
	}
	for i := 0; i < len(sp); i++ {
		for j := 0; j < len(sp); j += 3 {
			relops(sp[i], sp[(i+j)%len(sp)])
		}
	}
	rf := randomFloats(r, 600)
	for i := 0; i+1 < len(rf); i += 2 {
		binops(rf[i], rf[i+1])
		relops(rf[i], rf[i+1])
	}
	for i := 0; i < 400; i++ { // operands of similar magnitude
		a := fromBits(r.Uint64())
		if math.IsNaN(a) || math.IsInf(a, 0) {
			continue
		}
		ab := math.Float64bits(a)
		e := int64(ab>>52&0x7ff) + int64(r.Intn(121)-60)
		if e < 0 {
			e = 0
		}
		if e > 2046 {
			e = 2046
		}
		b := fromBits(uint64(r.Intn(2))<<63 | uint64(e)<<52 | r.Uint64()&0x000FFFFFFFFFFFFF)
		if i%4 == 0 {
			b = fromBits(ab ^ uint64(r.Intn(4)) ^ uint64(r.Intn(2))<<63)
		}
		binops(a, b)
		relops(a, b)
	}

	// unary operations, formatting
	all := append(append([]float64{}, sp...), randomFloats(r, 700)...)
	for i := 0; i < 300; i++ { // values with fractional parts near .5
		n := float64(r.Int63n(1 << uint(1+r.Intn(52))))
		all = append(all, n+0.5, -(n + 0.5), math.Nextafter(n+0.5, 0), math.Nextafter(n+0.5, 1e300))
	}
	for _, a := range all {
		unops(a)
	}
	fm := append(append([]float64{}, sp...), randomFloats(r, 1500)...)
	for k := -1074; k <= 1023; k++ { // powers of two: asymmetric rounding intervals
		fm = append(fm, math.Ldexp(1, k))
	}
	for k := -323; k <= 308; k++ {
		f, _ := strconv.ParseFloat("1e"+strconv.Itoa(k), 64)
		fm = append(fm, f, math.Nextafter(f, 0), math.Nextafter(f, math.Inf(1)))
	}
	for _, a := range fm {
		fmtops(a)
	}

	// Pow10
	for n := -330; n <= 315; n++ {
		emit("pow10", strconv.Itoa(n), fb(math.Pow10(n)))
	}

	// integers
	ints := []int64{0, 1, -1, 9, 10, 11, 99, 100, -100, 2147483647, 2147483648, -2147483648, -2147483649,
		math.MaxInt64, math.MinInt64, math.MaxInt64 - 1, math.MinInt64 + 1, 1 << 53, 1<<53 + 1, 1<<53 + 2, 1<<53 + 3, -(1<<53 + 1),
		1<<62 + 1, 9223372036854775295, 9223372036854775296, 9223372036854774783, 9223372036854774784, 9223372036854774785, 1000000000000000000}
	for i := 0; i < 200; i++ {
		ints = append(ints, int64(r.Uint64())>>uint(r.Intn(64)))
	}
	for _, z := range ints {
		intops(z)
	}

	// ParseFloat
	for _, s := range floatStrings {
		pf(s)
	}
	for _, a := range randomFloats(r, 400) {
		if math.IsNaN(a) || math.IsInf(a, 0) {
			continue
		}
		pf(strconv.FormatFloat(a, 'e', r.Intn(25), 64))
		pf(strconv.FormatFloat(a, 'g', -1, 64))
		if math.Abs(a) < 1e40 && math.Abs(a) > 1e-40 {
			pf(strconv.FormatFloat(a, 'f', r.Intn(60), 64))
		}
		pf(strconv.FormatFloat(a, 'x', -1, 64))
		pf(strconv.FormatFloat(a, 'X', r.Intn(16), 64))
		// exact midpoint between a and its successor, and its two neighbours in the last digit
		if b := math.Nextafter(a, math.Inf(1)); !math.IsInf(b, 0) && r.Intn(2) == 0 {
			mid := new(big.Float).SetPrec(2000).SetFloat64(a)
			mid.Add(mid, new(big.Float).SetPrec(2000).SetFloat64(b))
			mid.Quo(mid, big.NewFloat(2))
			s := mid.Text('e', 780)
			i := strings.IndexByte(s, 'e')
			m := strings.TrimRight(s[:i], "0")
			if strings.HasSuffix(m, ".") {
				m += "0"
			}
			pf(m + s[i:])
			pf(m + "1" + s[i:])
			pf(m[:len(m)-1] + string(m[len(m)-1]-1) + "9" + s[i:])
		}
	}
	for i := 0; i < 300; i++ { // random digit strings
		n := 1 + r.Intn(40)
		var sb strings.Builder
		if r.Intn(3) == 0 {
			sb.WriteByte('-')
		}
		dot := r.Intn(n + 1)
		for j := 0; j < n; j++ {
			if j == dot {
				sb.WriteByte('.')
			}
			sb.WriteByte(byte('0' + r.Intn(10)))
		}
		if r.Intn(2) == 0 {
			sb.WriteString("e" + strconv.Itoa(r.Intn(700)-350))
		}
		pf(sb.String())
	}

	// ParseInt
	for _, s := range intStrings {
		pi(s, 0, 64)
		pi(s, 10, 64)
		pi(s, 10, 32)
		pi(s, 0, 32)
		pi(s, 16, 64)
	}
	for _, s := range []string{"zz", "Zz", "10", "-10", "1_0", "7", "8", "g", "1y2p0ij32e8e7", "1y2p0ij32e8e8"} {
		for _, b := range []int{2, 8, 36, 1, 37, -1} {
			pi(s, b, 64)
		}
	}
	for _, s := range floatStrings {
		if len(s) < 30 {
			pi(s, 0, 64)
		}
	}
}
