module f64vec

go 1.23.0
