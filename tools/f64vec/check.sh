#!/bin/sh
# check.sh — machine-check that SJ.lib.F64 / SJ.lib.Strconv agree with real Go.
#   1. go run .           -> test vectors (tools/f64vec/main.go)
#   2. gen_coq.awk        -> Coq files, SHARD vectors each
#   3. coqc (in parallel) -> every vector evaluated with vm_compute; a shard
#                            compiles only if all of its vectors agree.
# usage: check.sh [-keep] [-small]
#   -small : the ~300-vector regression corpus (the one in coq/lib/F64Test.v)
#   -keep  : keep the work directory
#   env    : SHARD  vectors per Coq file (default 3000, ~25 s of coqc each)
#            JOBS   parallel coqc processes (default: nproc)
#            EVERY  use only every EVERY-th vector (default 1 = all ~105,000;
#                   the full run is ~15 CPU-minutes)
set -eu
here=$(cd "$(dirname "$0")" && pwd)
coq=$(cd "$here/../../coq" && pwd)
keep=0; small=""
for a in "$@"; do
  case "$a" in
    -keep) keep=1 ;;
    -small) small=-small ;;
    *) echo "usage: $0 [-keep] [-small]" >&2; exit 2 ;;
  esac
done
SHARD=${SHARD:-3000}
EVERY=${EVERY:-1}
JOBS=${JOBS:-$(nproc 2>/dev/null || echo 2)}
export GOFLAGS=-mod=mod GOPROXY=off GOSUMDB=off GOTOOLCHAIN=local
work=$(mktemp -d "${TMPDIR:-/var/tmp}/f64vec.XXXXXX")
[ "$keep" = 1 ] || trap 'rm -rf "$work"' EXIT

(cd "$here" && go run . $small) | awk -v k="$EVERY" 'NR % k == 0' > "$work/vec.txt"
total=$(wc -l < "$work/vec.txt")
echo "vectors: $total  (per function: $(cut -f1 "$work/vec.txt" | sort | uniq -c | awk '{printf "%s=%s ", $2, $1}'))"

# libraries under test
(cd "$coq" && for f in lib/Base.v lib/F64.v lib/Strconv.v; do
   [ "${f%.v}.vo" -nt "$f" ] || timeout 600 coqc -Q . SJ "$f"; done)

split -l "$SHARD" -d -a 3 "$work/vec.txt" "$work/shard_"
off=0
for s in "$work"/shard_*; do
  n=${s##*_}
  awk -v off="$off" -f "$here/gen_coq.awk" "$s" > "$work/Vec$n.v"
  off=$((off + $(wc -l < "$s")))
done

ls "$work"/Vec*.v | xargs -P "$JOBS" -I{} sh -c \
  'if timeout 1800 coqc -Q "$0" SJ "$1" > "$1.log" 2>&1; then echo "ok   $(basename "$1")"; else echo "FAIL $(basename "$1")"; fi' "$coq" {}

bad=0
for v in "$work"/Vec*.v; do
  if ! [ -f "${v%.v}.vo" ]; then
    bad=1
    echo "---- $(basename "$v") ----"
    # print the names of the disagreeing vectors (Print failed.) and the error
    head -c 4000 "$v.log"
    echo
    grep -o '"[a-z0-9]*#[0-9]*"' "$v.log" | tr -d '"' | head -60 | while read -r id; do
      ln=${id##*#}; echo "  $id: $(sed -n "${ln}p" "$work/vec.txt" | cut -c1-300)"
    done
  fi
done
if [ "$bad" = 0 ]; then
  echo "ALL $total VECTORS AGREE"
else
  echo "DISAGREEMENTS FOUND"; exit 1
fi
