module unitab

go 1.23.0

require (
	github.com/smasher164/xid v0.1.2
	golang.org/x/text v0.28.0 // indirect
)
