(* Conversions between the harness s-expressions and the extracted Coq types. *)
open Model
open Sexp

exception Bad of string

(* ---- numbers ---- *)
let rec pos_of_int (n : int) : positive =
  if n = 1 then XH else if n land 1 = 0 then XO (pos_of_int (n lsr 1)) else XI (pos_of_int (n lsr 1))
let z_of_int (n : int) : z =
  if n = 0 then Z0 else if n > 0 then Zpos (pos_of_int n) else Zneg (pos_of_int (- n))
let z10 = z_of_int 10

(* decimal string (optional leading '-') to z, arbitrary size *)
let z_of_string (s : string) : z =
  let neg = String.length s > 0 && s.[0] = '-' in
  let start = if neg || (String.length s > 0 && s.[0] = '+') then 1 else 0 in
  let acc = ref Z0 in
  for i = start to String.length s - 1 do
    let c = s.[i] in
    if c < '0' || c > '9' then raise (Bad ("z_of_string " ^ s));
    acc := Z.add (Z.mul !acc z10) (z_of_int (Char.code c - 48))
  done;
  if neg then Z.opp !acc else !acc

let rec int_of_pos = function
  | XH -> 1 | XO p -> 2 * int_of_pos p | XI p -> 2 * int_of_pos p + 1
let int_of_z = function Z0 -> 0 | Zpos p -> int_of_pos p | Zneg p -> - (int_of_pos p)

let string_of_z (x : z) : string =
  match x with
  | Z0 -> "0"
  | _ ->
    let neg, a = (match x with Zneg p -> true, Zpos p | _ -> false, x) in
    let b = Buffer.create 20 in
    let digits = ref [] in
    let cur = ref a in
    while !cur <> Z0 do
      let (q, r) = Z.div_eucl !cur z10 in
      digits := (int_of_z r) :: !digits;
      cur := q
    done;
    if neg then Buffer.add_char b '-';
    List.iter (fun d -> Buffer.add_char b (Char.chr (48 + d))) !digits;
    Buffer.contents b

let rec nat_of_int n = if n <= 0 then O else S (nat_of_int (n - 1))
let rec int_of_nat = function O -> 0 | S n -> 1 + int_of_nat n

let chars (s : string) : char list = List.init (String.length s) (String.get s)
let unchars (l : char list) : string = String.of_seq (List.to_seq l)

(* ---- json ---- *)
(* container identities: distinct powers of two, so that |a - b| determines {a, b} *)
let z2 = z_of_int 2
let tag0 = let rec pw n acc = if n = 0 then acc else pw (n - 1) (Z.mul acc z2) in pw 70 (z_of_int 1)
let tag_next = ref tag0
let reset_tags () = tag_next := tag0
let fresh_tag () = let t = !tag_next in tag_next := Z.mul t z2; t

let kind_of_string = function
  | "date" -> KDate | "time" -> KTime | "timetz" -> KTimeTZ
  | "timestamp" -> KTimestamp | "timestamptz" -> KTimestampTZ
  | s -> raise (Bad ("dtkind " ^ s))
let string_of_kind = function
  | KDate -> "date" | KTime -> "time" | KTimeTZ -> "timetz"
  | KTimestamp -> "timestamp" | KTimestampTZ -> "timestamptz"

let rec json_of_sexp (s : Sexp.t) : json =
  match s with
  | A "null" -> JNull
  | A "true" -> JBool true
  | A "false" -> JBool false
  | L [A "i"; A n] -> JNum (NInt (z_of_string n))
  | L [A "f"; A bits] -> JNum (NFlt (f64_of_bits (z_of_string bits)))
  | L [A "n"; S lit] -> JNum (NJs (chars lit))
  | L [A "s"; S str] -> JStr (chars str)
  | L (A "a" :: items) ->
    let t = fresh_tag () in
    JArr (t, List.map json_of_sexp items)
  | L (A "o" :: members) ->
    let t = fresh_tag () in
    JObj (t, List.map (function
        | L [S k; v] -> (chars k, json_of_sexp v)
        | x -> raise (Bad ("member " ^ Sexp.to_string x))) members)
  | L [A "dt"; A kind; A sec; A nsec; A off] ->
    JDt { dt_kind = kind_of_string kind; dt_sec = z_of_string sec; dt_nsec = z_of_string nsec; dt_off = z_of_string off }
  | x -> raise (Bad ("json " ^ Sexp.to_string x))

let qs (s : string) : string =
  let b = Buffer.create (String.length s + 2) in
  Buffer.add_char b '"';
  String.iter (fun c ->
      let k = Char.code c in
      if k < 0x20 || k > 0x7e || c = '"' || c = '\\' then Buffer.add_string b (Printf.sprintf "\\x%02x" k)
      else Buffer.add_char b c) s;
  Buffer.add_char b '"';
  Buffer.contents b

let rec string_of_json (v : json) : string =
  match v with
  | JNull -> "null"
  | JBool true -> "true"
  | JBool false -> "false"
  | JNum (NInt z) -> "(i " ^ string_of_z z ^ ")"
  | JNum (NFlt f) -> "(f " ^ string_of_z (f64_to_bits f) ^ ")"
  | JNum (NJs s) -> "(n " ^ qs (unchars s) ^ ")"
  | JStr s -> "(s " ^ qs (unchars s) ^ ")"
  | JArr (_, l) -> "(a" ^ String.concat "" (List.map (fun x -> " " ^ string_of_json x) l) ^ ")"
  | JObj (_, l) -> "(o" ^ String.concat "" (List.map (fun (k, x) -> " (" ^ qs (unchars k) ^ " " ^ string_of_json x ^ ")") l) ^ ")"
  | JDt d -> Printf.sprintf "(dt %s %s %s %s)" (string_of_kind d.dt_kind) (string_of_z d.dt_sec) (string_of_z d.dt_nsec) (string_of_z d.dt_off)

(* ---- path ---- *)
let const_of = function
  | "root" -> CRoot | "current" -> CCurrent | "last" -> CLast | "anyarray" -> CAnyArray
  | "anykey" -> CAnyKey | "true" -> CTrue | "false" -> CFalse | "null" -> CNull
  | s -> raise (Bad ("const " ^ s))
let binop_of = function
  | "and" -> BAnd | "or" -> BOr | "eq" -> BEq | "ne" -> BNe | "lt" -> BLt | "gt" -> BGt
  | "le" -> BLe | "ge" -> BGe | "startswith" -> BStartsWith | "add" -> BAdd | "sub" -> BSub
  | "mul" -> BMul | "div" -> BDiv | "mod" -> BMod
  | s -> raise (Bad ("binop " ^ s))
let unop_of = function
  | "exists" -> UExists | "not" -> UNot | "isunknown" -> UIsUnknown | "plus" -> UPlus
  | "minus" -> UMinus | "filter" -> UFilter
  | s -> raise (Bad ("unop " ^ s))
let dtop_of = function
  | "datetime" -> DDateTime | "date" -> DDate | "time" -> DTime | "timetz" -> DTimeTZ
  | "timestamp" -> DTimestamp | "timestamptz" -> DTimestampTZ
  | s -> raise (Bad ("dtop " ^ s))
let meth_of = function
  | "abs" -> MAbs | "size" -> MSize | "type" -> MType | "floor" -> MFloor | "ceiling" -> MCeiling
  | "double" -> MDouble | "keyvalue" -> MKeyValue | "bigint" -> MBigInt | "boolean" -> MBoolean
  | "integer" -> MInteger | "number" -> MNumber | "string" -> MString
  | s -> raise (Bad ("meth " ^ s))

let opt_z = function A "none" -> None | A n -> Some (z_of_string n) | x -> raise (Bad ("optz " ^ Sexp.to_string x))

let rec chain_of_sexp (s : Sexp.t) : chain =
  match s with
  | L (A "c" :: steps) -> List.map step_of_sexp steps
  | x -> raise (Bad ("chain " ^ Sexp.to_string x))
and step_of_sexp (s : Sexp.t) : step =
  match s with
  | L [A "const"; A k] -> SConst (const_of k)
  | L [A "str"; S x] -> SStr (chars x)
  | L [A "int"; A n] -> SInteger (z_of_string n)
  | L [A "num"; A bits] -> SNumeric (f64_of_bits (z_of_string bits))
  | L [A "var"; S x] -> SVar (chars x)
  | L [A "key"; S x] -> SKey (chars x)
  | L [A "bin"; A op; l; r] -> SBin (binop_of op, chain_of_sexp l, chain_of_sexp r)
  | L [A "un"; A op; a] -> SUn (unop_of op, chain_of_sexp a)
  | L [A "regex"; a; S pat; A flags] -> SRegex (chain_of_sexp a, chars pat, z_of_string flags)
  | L [A "meth"; A m] -> SMeth (meth_of m)
  | L [A "decimal"; p; sc] -> SDecimal (opt_z p, opt_z sc)
  | L [A "dt"; A op; tmpl; prec] ->
    SDt (dtop_of op, (match tmpl with A "none" -> None | S t -> Some (chars t) | x -> raise (Bad ("tmpl " ^ Sexp.to_string x))), opt_z prec)
  | L [A "any"; A f; A l] -> SAny (z_of_string f, z_of_string l)
  | L (A "index" :: subs) ->
    SIndex (List.map (function
        | L [A "sub"; a; A "none"] -> (chain_of_sexp a, None)
        | L [A "sub"; a; b] -> (chain_of_sexp a, Some (chain_of_sexp b))
        | x -> raise (Bad ("sub " ^ Sexp.to_string x))) subs)
  | x -> raise (Bad ("step " ^ Sexp.to_string x))

let path_of_sexp (s : Sexp.t) : path =
  match s with
  | L [A "path"; A lax; A pred; c] ->
    { p_lax = (lax = "true"); p_pred = (pred = "true"); p_root = chain_of_sexp c }
  | x -> raise (Bad ("path " ^ Sexp.to_string x))

(* ---- observations ---- *)
let oerr_of_string = function
  | "verbose" -> OEVerbose | "exec" -> OEExec | "invalid" -> OEInvalid | "cancel" -> OECancel
  | "null" -> OENull | _ -> OEOther

let obs_of_sexp (s : Sexp.t) : obs =
  match s with
  | L (A "items" :: items) -> ObItems (List.map json_of_sexp items)
  | L [A "first"; v] -> ObFirst (json_of_sexp v)
  | L [A "bool"; A b] -> ObBool (b = "true")
  | L [A "err"; A c] -> ObErr (oerr_of_string c)
  | L [A "panic"; _] -> ObPanic
  | L (A "err-with-items" :: _) -> ObWeird
  | x -> raise (Bad ("obs " ^ Sexp.to_string x))

let string_of_oerr = function
  | OEVerbose -> "verbose" | OEExec -> "exec" | OEInvalid -> "invalid" | OECancel -> "cancel"
  | OENull -> "null" | OEOther -> "other"

let string_of_obs = function
  | ObItems l -> "(items" ^ String.concat "" (List.map (fun x -> " " ^ string_of_json x) l) ^ ")"
  | ObFirst v -> "(first " ^ string_of_json v ^ ")"
  | ObBool b -> Printf.sprintf "(bool %b)" b
  | ObErr e -> "(err " ^ string_of_oerr e ^ ")"
  | ObPanic -> "(panic)"
  | ObWeird -> "(weird)"
  | ObFuel -> "(out-of-fuel)"

(* integers occurring in the inputs, and syntactic features of the path *)
let rec json_ints (v : json) (acc : z list) : z list =
  match v with
  | JNum (NInt z) -> z :: acc
  | JArr (_, l) -> List.fold_left (fun a x -> json_ints x a) acc l
  | JObj (_, l) -> List.fold_left (fun a (_, x) -> json_ints x a) acc l
  | _ -> acc

let rec chain_ints (c : chain) (acc : z list) : z list = List.fold_left (fun a s -> step_ints s a) acc c
and step_ints (s : step) (acc : z list) : z list =
  match s with
  | SInteger z -> z :: acc
  | SBin (_, l, r) -> chain_ints r (chain_ints l acc)
  | SUn (_, a) -> chain_ints a acc
  | SRegex (a, _, _) -> chain_ints a acc
  | SIndex subs -> List.fold_left (fun a (x, y) -> let a = chain_ints x a in (match y with Some c -> chain_ints c a | None -> a)) acc subs
  | _ -> acc

let rec chain_has (p : step -> bool) (c : chain) : bool = List.exists (step_has p) c
and step_has (p : step -> bool) (s : step) : bool =
  p s || (match s with
      | SBin (_, l, r) -> chain_has p l || chain_has p r
      | SUn (_, a) -> chain_has p a
      | SRegex (a, _, _) -> chain_has p a
      | SIndex subs -> List.exists (fun (x, y) -> chain_has p x || (match y with Some c -> chain_has p c | None -> false)) subs
      | _ -> false)

let is_kv = function SMeth MKeyValue -> true | _ -> false
let is_wild = function SConst CAnyKey -> true | SAny _ -> true | _ -> false
