(* Minimal s-expression reader for the harness format. *)
type t = A of string          (* atom: symbol or number *)
       | S of string          (* quoted string, bytes decoded *)
       | L of t list

exception Parse_error of string

let parse (s : string) : t =
  let n = String.length s in
  let pos = ref 0 in
  let peek () = if !pos < n then Some s.[!pos] else None in
  let rec skip () = match peek () with
    | Some (' ' | '\t' | '\n' | '\r') -> incr pos; skip ()
    | _ -> () in
  let hexv c = match c with
    | '0'..'9' -> Char.code c - 48
    | 'a'..'f' -> Char.code c - 87
    | 'A'..'F' -> Char.code c - 55
    | _ -> raise (Parse_error "hex") in
  let rec value () =
    skip ();
    match peek () with
    | None -> raise (Parse_error "eof")
    | Some '(' ->
      incr pos;
      let items = ref [] in
      let rec loop () =
        skip ();
        match peek () with
        | Some ')' -> incr pos
        | None -> raise (Parse_error "eof in list")
        | _ -> items := value () :: !items; loop () in
      loop ();
      L (List.rev !items)
    | Some '"' ->
      incr pos;
      let b = Buffer.create 16 in
      let rec loop () =
        if !pos >= n then raise (Parse_error "eof in string");
        let c = s.[!pos] in
        if c = '"' then incr pos
        else if c = '\\' then begin
          (* \xHH *)
          if !pos + 3 >= n then raise (Parse_error "escape");
          let v = hexv s.[!pos + 2] * 16 + hexv s.[!pos + 3] in
          Buffer.add_char b (Char.chr v);
          pos := !pos + 4;
          loop ()
        end else begin Buffer.add_char b c; incr pos; loop () end in
      loop ();
      S (Buffer.contents b)
    | Some _ ->
      let start = !pos in
      let rec loop () = match peek () with
        | Some (' ' | '\t' | '\n' | '\r' | '(' | ')') | None -> ()
        | _ -> incr pos; loop () in
      loop ();
      A (String.sub s start (!pos - start)) in
  value ()

let rec to_string = function
  | A a -> a
  | S s -> Printf.sprintf "%S" s
  | L l -> "(" ^ String.concat " " (List.map to_string l) ^ ")"
