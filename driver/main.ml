(* sjdriver: reads the cases written by sjharness (inputs + the implementation's
   observed results), runs the extracted Coq model and specification on the same
   inputs and reports

     TIE   — model (model/Exec.v) and implementation disagree on a projected observable
     POLLS — they disagree on the number of polls of ctx.Done()
     SPEC  — implementation and specification (spec/Sem.v + spec/Proj.v) disagree;
             class=<known-finding class> when one of the recorded deviations explains it
     PROP  — a relation a property states directly on the implementation's outputs fails
     THM   — an instance of a proved refinement theorem fails on the extracted terms (trusted base broken)
     IMPURE, SKIP, STAT, SUMMARY

   usage: sjdriver CASES.sexp *)
open Model
open Sexp
open Conv

let fuel = nat_of_int 100000
let now_sec = z_of_string "1790000000"

let field (name : string) (items : Sexp.t list) : Sexp.t list =
  let rec go = function
    | L (A n :: rest) :: _ when n = name -> rest
    | _ :: tl -> go tl
    | [] -> raise (Bad ("missing field " ^ name)) in
  go items
let field_opt name items = try Some (field name items) with Bad _ -> None

(* ---------- known-finding classifiers (mirrored by known_findings.json) ---------- *)
let last_is_unary (c : chain) : bool =
  match List.rev c with SUn ((UPlus | UMinus), _) :: _ -> true | _ -> false
let unary_quirk (p : path) : bool =
  last_is_unary p.p_root ||
  chain_has (function SUn (UExists, a) -> last_is_unary a | _ -> false) p.p_root

let is_dt = function SDt _ -> true | _ -> false
let is_decimal = function SDecimal _ -> true | _ -> false
let is_arith = function SBin ((BAdd | BSub | BMul | BDiv | BMod), _, _) -> true | SUn ((UPlus | UMinus), _) -> true | SMeth MAbs -> true | _ -> false

let is_container = function JArr _ | JObj _ -> true | _ -> false

type run = { silent : bool; k : int; cause : string; entries : (string * (obs * int option)) list }

type case = {
  id : string; family : string; text : string; path : path; doc : json;
  vars : (char list * json) list; vars_tag : z; next_tag : z; usetz : bool; tzoff : z;
  unordered : bool; haskv : bool; kv : z list option;
  retab : ((string * int * string) * bool) list; pure : bool; runs : run list;
  group : (string * string) option;   (* group id, role *)
}

let counters = Hashtbl.create 16
let bump name = Hashtbl.replace counters name (1 + (try Hashtbl.find counters name with Not_found -> 0))
let count name = try Hashtbl.find counters name with Not_found -> 0

let parse_case (rest : Sexp.t list) (id : string) (family : string) : case =
  reset_tags ();
  let text = (match field "text" rest with [S t] -> t | _ -> raise (Bad "text")) in
  let path = path_of_sexp (List.find (function L (A "path" :: _) -> true | _ -> false) rest) in
  let doc = (match field "doc" rest with [d] -> json_of_sexp d | _ -> raise (Bad "doc")) in
  let vars = List.map (function L [S k; v] -> (chars k, json_of_sexp v) | _ -> raise (Bad "var")) (field "vars" rest) in
  let vars_tag = fresh_tag () in
  let next_tag = fresh_tag () in
  let usetz = (match field "usetz" rest with [A b] -> b = "true" | _ -> false) in
  let tzoff = (match field "tz" rest with [A n] -> z_of_string n | _ -> Z0) in
  let unordered = (match field "unordered" rest with [A b] -> b = "true" | _ -> false) in
  let haskv = chain_has is_kv path.p_root in
  let unordered = unordered || (haskv && chain_has is_wild path.p_root) in
  let kv = if haskv then
      Some (List.fold_left (fun a (_, v) -> json_ints v a) (json_ints doc (chain_ints path.p_root [])) vars)
    else None in
  let retab = List.map (function
      | L [S pat; A flags; S subj; A b] -> ((pat, int_of_string flags, subj), b = "true")
      | _ -> raise (Bad "re")) (field "re" rest) in
  let pure = (match field "pure" rest with [A b] -> b = "true" | _ -> true) in
  let group = (match field_opt "group" rest with Some [S g; S role] -> Some (g, role) | _ -> None) in
  let runs = List.filter_map (function
      | L (A "run" :: A silent :: A k :: A cause :: entries) ->
        let es = List.filter_map (function
            | L [A name; r; A n] -> Some (name, (obs_of_sexp r, Some (int_of_string n)))
            | L [A name; r] -> Some (name, (obs_of_sexp r, None))
            | _ -> None) entries in
        Some { silent = (silent = "true"); k = int_of_string k; cause; entries = es }
      | _ -> None) (field "runs" rest) in
  { id; family; text; path; doc; vars; vars_tag; next_tag; usetz; tzoff; unordered; haskv; kv; retab; pure; runs; group }

(* memoisation of pure, expensive library functions of the extracted oracle instance (number parsing
   and formatting on inductive numbers): same results, computed once per distinct argument *)
let memo1 (tbl : ('a, 'b) Hashtbl.t) (f : 'a -> 'b) (x : 'a) : 'b =
  match Hashtbl.find_opt tbl x with
  | Some y -> y
  | None -> let y = f x in Hashtbl.add tbl x y; y
let t_pf = Hashtbl.create 4096 and t_ff = Hashtbl.create 4096 and t_p10 = Hashtbl.create 256
and t_mod = Hashtbl.create 4096 and t_pi = Hashtbl.create 4096 and t_ofz = Hashtbl.create 4096
let fast (l : execLib) : execLib =
  { l with
    xl_parse_float = memo1 t_pf l.xl_parse_float;
    xl_format_float = memo1 t_ff l.xl_format_float;
    xl_pow10 = memo1 t_p10 l.xl_pow10;
    xl_of_Z = memo1 t_ofz l.xl_of_Z;
    xl_parse_int = (fun b n s -> memo1 t_pi (fun (b, n, s) -> l.xl_parse_int b n s) (b, n, s));
    xl_mod = (fun a b -> memo1 t_mod (fun (a, b) -> l.xl_mod a b) (a, b)) }

let missed = ref false
let lib_of (c : case) : execLib =
  let re pat flags subj =
    match List.assoc_opt (unchars pat, int_of_z flags, unchars subj) c.retab with
    | Some b -> b
    | None -> missed := true; false in
  fast (mk_lib (ctx_fixed c.tzoff now_sec) re members_in_order)

(* When the order of object members is open, an outcome may depend on it (which member meets which error first).
   The model is run under three member orders; only order-insensitive outcomes are compared with the implementation. *)
let lib_with_order (c : case) (perm : json list -> json list) : execLib =
  let re pat flags subj =
    match List.assoc_opt (unchars pat, int_of_z flags, unchars subj) c.retab with
    | Some b -> b
    | None -> missed := true; false in
  fast (mk_lib (ctx_fixed c.tzoff now_sec) re (fun l -> perm (members_in_order l)))
let rotate = function [] -> [] | x :: r -> r @ [x]

let opts_of (c : case) (r : run) : opts =
  { o_vars = c.vars; o_vars_tag = c.vars_tag; o_silent = r.silent; o_useTZ = c.usetz;
    o_cancel_at = (if r.k < 0 then None else Some (nat_of_int r.k)); o_next_tag = c.next_tag }

let find_run (c : case) (silent : bool) (k : int) : run option =
  List.find_opt (fun r -> r.silent = silent && r.k = k) c.runs
let obs_in (r : run) (name : string) : obs option =
  match List.assoc_opt name r.entries with Some (o, _) -> Some o | None -> None
let polls_in (r : run) (name : string) : int option =
  match List.assoc_opt name r.entries with Some (_, p) -> p | None -> None

(* A listed finding is a deviation of the UNCHANGED code from the property; the model reproduces
   every one of them (its _refuted theorems).  So a deviation that the model does not reproduce on
   this very input is a new one, whatever its syntactic shape: the class is then withdrawn. *)
let model_obs (c : case) (r : run) (entry : string) : obs =
  let lib = fast (mk_lib (ctx_fixed c.tzoff now_sec)
      (fun pat flags subj -> match List.assoc_opt (unchars pat, int_of_z flags, unchars subj) c.retab with Some b -> b | None -> missed := true; false)
      members_in_order) in
  let o = opts_of c r in
  match entry with
  | "query" -> obs_of_q (api_query lib fuel c.path c.doc o)
  | "first" -> obs_of_f (api_first lib fuel c.path c.doc o)
  | "exists" -> obs_of_b (api_exists lib fuel c.path c.doc o)
  | "match" -> obs_of_b (api_match lib fuel c.path c.doc o)
  | _ -> obs_of_b (api_eom lib fuel c.path c.doc o)
let kv_value_dependent : (case -> bool) ref = ref (fun _ -> false)   (* set below, once id_flows_on is defined *)
let known_by_model (c : case) (r : run) (entry : string) (impl : obs) : bool =
  (* where a .keyvalue() id (a heap address; a tag in the model) flows into further steps the model cannot
     reproduce the implementation's numbers: the class guessed from the path's shape stands *)
  c.unordered || !kv_value_dependent c
  || (missed := false;
      let m = model_obs c r entry in
      (* a like_regex subject the harness did not tabulate (e.g. the text of a number): the model's answer is not usable *)
      !missed || obs_eqb c.unordered c.kv impl m)
let narrow (c : case) (r : run) (entry : string) (impl : obs) (cls : string) : string =
  if cls <> "NONE" && not (known_by_model c r entry impl) then "NONE" else cls

(* ids of the other cases a relation over several cases was evaluated on (groups, comparison tables):
   the replay file carries all of them *)
let related : string list ref = ref []
let prop_line tag (c : case) clause cls detail =
  bump ("prop_" ^ tag);
  let rel = match !related with [] -> "" | l -> " related=" ^ String.concat "," l in
  Printf.printf "PROP %s %s %s clause=%s class=%s%s detail=%s text=%s\n" tag c.id c.family clause cls rel detail (qs c.text)

(* .keyvalue() ids are heap addresses; the model's are tags.  Renaming makes them comparable as OUTPUT, but not
   when an id flows on into a further step (a method, arithmetic, a comparison): then the outcome depends on its
   digits.  An id is exposed by the key "id" or by a wildcard over the generated triple. *)
let nested_kv = ref false   (* the path applies .keyvalue() to .keyvalue() output: then ".value" can be an id too *)
let rec id_flows_on (top : bool) (ch : chain) : bool =
  match ch with
  | [] -> false
  | s :: rest ->
    let exposing = (match s with SKey k -> unchars k = "id" || (!nested_kv && unchars k = "value") | s -> is_wild s) in
    (exposing && (rest <> [] || not top))
    || (match s with
        | SBin (_, l, r) -> id_flows_on false l || id_flows_on false r
        | SUn (_, a) -> id_flows_on false a
        | SRegex (a, _, _) -> id_flows_on false a
        | SIndex subs -> List.exists (fun (x, y) -> id_flows_on false x || (match y with Some c -> id_flows_on false c | None -> false)) subs
        | _ -> false)
    || id_flows_on top rest

let () = kv_value_dependent := (fun (c : case) ->
    c.haskv && begin
      nested_kv := (let n = ref 0 in ignore (chain_has (fun s -> if is_kv s then incr n; false) c.path.p_root); !n >= 2);
      id_flows_on true c.path.p_root
    end)

(* ---------- T: model vs implementation ---------- *)
let tie_leg (c : case) =
  let lib = lib_of c in
  nested_kv := (let n = ref 0 in ignore (chain_has (fun s -> if is_kv s then incr n; false) c.path.p_root); !n >= 2);
  if c.haskv && id_flows_on true c.path.p_root then bump "skipped_kv_id_flows" else
  List.iter (fun r ->
      bump "runs";
      let o = opts_of c r in
      let model_of = function
        | "query" -> obs_of_q (api_query lib fuel c.path c.doc o)
        | "first" -> obs_of_f (api_first lib fuel c.path c.doc o)
        | "exists" -> obs_of_b (api_exists lib fuel c.path c.doc o)
        | "match" -> obs_of_b (api_match lib fuel c.path c.doc o)
        | _ -> obs_of_b (api_eom lib fuel c.path c.doc o) in
      List.iter (fun (entry, (impl, polls)) ->
          bump "comparisons";
          missed := false;
          let m = model_of entry in
          let order_insensitive () =
            let alt perm = obs_of_q (api_query (lib_with_order c perm) fuel c.path c.doc o) in
            let ok = obs_eqb true c.kv m (alt List.rev) && obs_eqb true c.kv m (alt rotate) in
            if not ok then bump "skipped_order_dependent";
            ok in
          (* an error on one side and items on the other, on a path whose outcome may depend on member order:
             comparable when the model gives one and the same outcome under every rotation of the members (each
             member is first once and last once), their reversal included — then no order explains the difference *)
          let order_insensitive_all () =
            let alt perm = obs_of_q (api_query (lib_with_order c perm) fuel c.path c.doc o) in
            let rot2 l = rotate (rotate l) in
            let rot3 l = rotate (rot2 l) in
            let perms = [List.rev; rotate; rot2; rot3; (fun l -> rotate (rot3 l)); (fun l -> rotate (rotate (rot3 l))); (fun l -> List.rev (rotate l)); (fun l -> List.rev (rot2 l))] in
            let ok = List.for_all (fun pm -> let a = alt pm in
                                    (match a, m with ObItems _, ObItems _ | ObErr _, ObErr _ -> true | _ -> false)
                                    && obs_eqb true c.kv m a) perms in
            if not ok then bump "skipped_order_dependent";
            ok in
          let comparable =
            if not c.unordered then true
            else (entry = "query" && not r.silent && r.k < 0
                  && (match impl, m with
                      | ObItems _, ObItems _ -> order_insensitive ()
                      | ObErr _, ObItems _ | ObItems _, ObErr _ -> not c.haskv && order_insensitive_all ()
                      | _ -> false)) in
          if comparable && not (obs_eqb c.unordered c.kv impl m) then begin
            if !missed then bump "oracle_miss"
            else begin
              bump "ties";
              Printf.printf "TIE %s %s %s silent=%b k=%d impl=%s model=%s text=%s\n"
                c.id c.family entry r.silent r.k (string_of_obs impl) (string_of_obs m) (qs c.text)
            end
          end;
          (match polls with
           | Some n when not c.unordered ->
             let vals = if entry = "exists" then None else Some [] in
             (match api_polls lib fuel c.path c.doc o vals with
              | Ret pn ->
                let pm = int_of_nat pn in
                if pm <> n && not !missed then begin
                  bump "polls";
                  Printf.printf "POLLS %s %s %s silent=%b k=%d impl=%d model=%d text=%s\n" c.id c.family entry r.silent r.k n pm (qs c.text)
                end
              | _ -> ())
           | _ -> ())) r.entries) c.runs

(* ---------- S: specification vs implementation ---------- *)
let spec_obs lib (c : case) (o : opts) entry q =
  match entry with
  | "query" -> obs_of_q (Ret (api_spec_query lib q c.path c.doc o))
  | "first" -> obs_of_f (Ret (api_spec_first lib q c.path c.doc o))
  | "exists" -> obs_of_b (Ret (api_spec_exists lib q c.path c.doc o))
  | "match" -> obs_of_b (Ret (api_spec_match lib q c.path c.doc o))
  | _ -> obs_of_b (Ret (api_spec_eom lib q c.path c.doc o))

let reads_kv_id (c : case) =
  c.haskv && (chain_has (function SKey k -> unchars k = "id" | _ -> false) c.path.p_root
              || (nested_kv := (let n = ref 0 in ignore (chain_has (fun s -> if is_kv s then incr n; false) c.path.p_root); !n >= 2);
                  id_flows_on true c.path.p_root))

let spec_leg (c : case) =
  let lib = lib_of c in
  List.iter (fun r ->
      (* the specification leaves keyvalue ids abstract: a path that inspects them cannot be compared *)
      if r.k < 0 && not (reads_kv_id c) then begin
        let o = opts_of c r in
        List.iter (fun (entry, (impl, _)) ->
            (* member order is open: whether an evaluation meets an error at all can depend on it (a predicate
               stops at the first error), so only two item lists are compared, as multisets; and .* / .** over the
               {id,key,value} objects that .keyvalue() generates (Go maps, iterated in random order) are not compared *)
            let comparable =
              if not c.unordered then true
              else if c.haskv && chain_has is_wild c.path.p_root then false
              else (entry = "query" && not r.silent
                    && (match impl, spec_obs lib c o entry quirks_code with ObItems _, ObItems _ -> true | _ -> false)
                    && List.for_all (fun q ->
                        (* the specification iterates members in list order: permute the inputs themselves *)
                        let rec pj perm (v : json) : json = match v with
                          | JArr (t, l) -> JArr (t, List.map (pj perm) l)
                          | JObj (t, l) -> JObj (t, perm (List.map (fun (k, x) -> (k, pj perm x)) l))
                          | _ -> v in
                        let alt perm =
                          let c' = { c with doc = pj perm c.doc; vars = List.map (fun (k, v) -> (k, pj perm v)) c.vars } in
                          spec_obs lib c' { o with o_vars = c'.vars } entry q in
                        let s0 = spec_obs lib c o entry q in
                        let ok = obs_eqb true c.kv s0 (alt List.rev) && obs_eqb true c.kv s0 (alt rotate) in
                        if not ok then bump "skipped_order_dependent";
                        ok)
                      [quirks_code; quirks_ideal]) in
            if comparable then begin
              bump "spec_comparisons";
              missed := false;
              let un = c.unordered || c.haskv in
              let eq q = obs_eqb un c.kv impl (spec_obs lib c o entry q) in
              if not (eq quirks_ideal) then begin
                let cls =
                  if eq { q_skip_null = true; q_iu_swallow = false } then "C14-null-subscript"
                  else if eq { q_skip_null = false; q_iu_swallow = true } then "C11-isunknown-hard-error"
                  else if eq quirks_code then "C14-null-subscript+C11-isunknown-hard-error"
                  else if unary_quirk c.path then "C06-unary-exists"
                  else "NONE" in
                if !missed then bump "oracle_miss"
                else begin
                  bump "spec_mismatches";
                  Printf.printf "SPEC %s %s %s silent=%b class=%s impl=%s spec=%s text=%s\n"
                    c.id c.family entry r.silent cls (string_of_obs impl)
                    (string_of_obs (spec_obs lib c o entry quirks_ideal)) (qs c.text)
                end
              end
            end) r.entries
      end) c.runs

(* ---------- THM: instances of the refinement theorems ----------
   proofs/RefineClosed.v: query/first/match/exists/eom_is_trace.  Where their decidable
   hypotheses hold of a generated case (no cancellation, non-empty root chain, no_kv, exists_ok,
   ne_ops and, for the existence entry points in lax mode, unary_tail_free) the conclusion must
   hold of the extracted terms: the model's answer equals the projection of the specification's
   trace taken with quirks_code.  A THM line therefore means that the extracted code, the oracle
   instance or this driver does not satisfy a proved theorem - a broken trusted base, reported
   like a broken correspondence.  The counters say how much of the generated input space the
   theorems' hypotheses cover. *)
let thm_leg (c : case) =
  let lib = lib_of c in
  let root = c.path.p_root in
  let h_ne = root <> [] and h_kv = no_kv root and h_ex = exists_ok root and h_no = ne_ops root in
  let h_ut = unary_tail_free root in
  let h_qf = quirk_free root in
  bump "thm_cases";
  if h_qf then bump "thm_hyp_quirk_free";
  if not h_kv then bump "thm_hyp_no_kv_fails";
  if not h_ex then bump "thm_hyp_exists_ok_fails";
  if not h_no then bump "thm_hyp_ne_ops_fails";
  if not h_ut then bump "thm_hyp_unary_tail_free_fails";
  (* proofs/Total.v (C05_query_returns, C05_fuel_monotone): with the explicit bound fuel_for the model
     returns, and more fuel does not change the answer *)
  List.iter (fun r ->
      if r.k < 0 && not r.silent then begin
        let o = opts_of c r in
        let ff = fuel_for c.path c.doc o in
        missed := false;
        (match api_query lib ff c.path c.doc o with
         | Ret _ as x ->
           bump "thm_total_instances";
           let big = obs_of_q (api_query lib fuel c.path c.doc o) in
           if not (obs_eqb false c.kv (obs_of_q x) big) && not !missed then begin
             bump "thm_failures";
             Printf.printf "THM %s %s query silent=false theorem=fuel_monotone model=%s spec=%s text=%s\n"
               c.id c.family (string_of_obs (obs_of_q x)) (string_of_obs big) (qs c.text)
           end
         | _ ->
           bump "thm_failures";
           Printf.printf "THM %s %s query silent=false theorem=query_returns model=(no answer with fuel_for = %d) spec=(an answer) text=%s\n"
             c.id c.family (int_of_nat ff) (qs c.text))
      end) c.runs;
  if h_ne && h_kv && h_ex && h_no then begin
    bump "thm_hyp_ok";
    List.iter (fun r ->
        if r.k < 0 then begin
          let o = opts_of c r in
          List.iter (fun (entry, _) ->
              let applies = match entry with
                | "exists" -> (not c.path.p_lax) || h_ut
                | "eom" -> c.path.p_pred || (not c.path.p_lax) || h_ut
                | _ -> true in
              if applies then begin
                missed := false;
                let m = match entry with
                  | "query" -> (match api_query lib fuel c.path c.doc o with Ret _ as x -> Some (obs_of_q x) | _ -> None)
                  | "first" -> (match api_first lib fuel c.path c.doc o with Ret _ as x -> Some (obs_of_f x) | _ -> None)
                  | "exists" -> (match api_exists lib fuel c.path c.doc o with Ret _ as x -> Some (obs_of_b x) | _ -> None)
                  | "match" -> (match api_match lib fuel c.path c.doc o with Ret _ as x -> Some (obs_of_b x) | _ -> None)
                  | _ -> (match api_eom lib fuel c.path c.doc o with Ret _ as x -> Some (obs_of_b x) | _ -> None) in
                (match m with
                 | None -> bump "thm_premise_not_ret"
                 | Some m ->
                   let s = spec_obs lib c o entry quirks_code in
                   bump "thm_instances";
                   if not (obs_eqb false c.kv m s) && not !missed then begin
                     bump "thm_failures";
                     Printf.printf "THM %s %s %s silent=%b theorem=%s_is_trace model=%s spec=%s text=%s\n"
                       c.id c.family entry r.silent entry (string_of_obs m) (string_of_obs s) (qs c.text)
                   end;
                   (* proofs/QuirkFree.v: on paths without subscripts and "is unknown" the model conforms to the
                      DOCUMENTED semantics (quirks_ideal) *)
                   if h_qf then begin
                     let si = spec_obs lib c o entry quirks_ideal in
                     bump "thm_ideal_instances";
                     if not (obs_eqb false c.kv m si) && not !missed then begin
                       bump "thm_failures";
                       Printf.printf "THM %s %s %s silent=%b theorem=%s_conforms_ideal model=%s spec=%s text=%s\n"
                         c.id c.family entry r.silent entry (string_of_obs m) (string_of_obs si) (qs c.text)
                     end
                   end)
              end) r.entries
        end) c.runs
  end

(* ---------- property relations stated directly on the implementation's outputs ---------- *)
let is_err = function ObErr _ -> true | _ -> false
let err_class = function ObErr e -> Some e | _ -> None

let rec json_exists (p : json -> bool) (v : json) : bool =
  p v || (match v with
      | JArr (_, l) -> List.exists (json_exists p) l
      | JObj (_, l) -> List.exists (fun (_, x) -> json_exists p x) l
      | _ -> false)
let nonfinite = function
  | JNum (NFlt (S754_infinity _)) | JNum (NFlt S754_nan) -> true
  | _ -> false

let rec subvalues (v : json) (acc : json list) : json list =
  let acc = v :: acc in
  match v with
  | JArr (_, l) -> List.fold_left (fun a x -> subvalues x a) acc l
  | JObj (_, l) -> List.fold_left (fun a (_, x) -> subvalues x a) acc l
  | _ -> acc

let jeq a b = obs_eqb false None (ObFirst a) (ObFirst b)

let is_kv_obj = function
  | JObj (_, [(k1, _); (k2, _); (k3, _)]) -> unchars k1 = "id" && unchars k2 = "key" && unchars k3 = "value"
  | _ -> false

(* C05: classification, finiteness, provenance, purity *)
let check_c05 (c : case) =
  if not c.pure then begin
    bump "impure";
    Printf.printf "IMPURE %s %s text=%s\n" c.id c.family (qs c.text)
  end;
  let inputs = lazy (List.fold_left (fun a (_, v) -> subvalues v a) (subvalues c.doc []) c.vars) in
  List.iter (fun r ->
      List.iter (fun (entry, (impl, _)) ->
          (match impl with
           | ObPanic -> prop_line "C05" c ("panic-" ^ entry) "NONE" "(panic)"
           | ObWeird -> prop_line "C05" c ("error-with-value-" ^ entry) "NONE" "(weird)"
           | ObErr OEInvalid ->
             let cls = if chain_has is_dt c.path.p_root then "C05-errinvalid-datetime-compare" else "NONE" in
             prop_line "C05" c ("errinvalid-" ^ entry) (narrow c r entry impl cls) "(err invalid)"
           | ObErr OEOther -> prop_line "C05" c ("unclassified-error-" ^ entry) "NONE" "(err other)"
           | ObErr OENull when entry = "query" || entry = "first" -> prop_line "C05" c ("null-from-" ^ entry) "NONE" "(err null)"
           | ObItems items when entry = "query" ->
             if List.exists (json_exists nonfinite) items then begin
               let cls = if chain_has is_decimal c.path.p_root then "C16-decimal-nan"
                 else if chain_has is_arith c.path.p_root then "C05-float-overflow-inf" else "NONE" in
               prop_line "C05" c "nonfinite-number" (narrow c r entry impl cls) (string_of_obs impl)
             end;
             (* every returned container is a sub-value of the inputs or a keyvalue triple *)
             List.iter (fun it ->
                 match it with
                 | JArr _ | JObj _ ->
                   if not (is_kv_obj it) && not (List.exists (fun s -> jeq s it) (Lazy.force inputs)) then
                     prop_line "C05" c "provenance" "NONE" (string_of_json it)
                 | _ -> ()) items
           | _ -> ())) r.entries) c.runs

(* C06: the five entry points tell one story *)
let check_c06 (c : case) =
  let lib = lib_of c in
  List.iter (fun r ->
      if r.k < 0 && not c.unordered then begin
        match obs_in r "query", obs_in r "first", obs_in r "exists", obs_in r "match", obs_in r "eom" with
        | Some q, Some f, Some x, Some m, Some em ->
          let eq a b = obs_eqb false c.kv a b in
          (* First = head of Query, same error *)
          let f_exp = (match q with
              | ObItems (h :: _) -> ObFirst h | ObItems [] -> ObFirst JNull | other -> other) in
          if not (eq f f_exp) then prop_line "C06" c "first-vs-query" "NONE" (string_of_obs f ^ " vs " ^ string_of_obs q);
          (* Match = sole boolean of Query *)
          let m_exp = (match q with
              | ObItems [JNull] -> ObErr OENull
              | ObItems [JBool b] -> ObBool b
              | ObItems _ -> if r.silent then ObErr OENull else ObErr OEVerbose
              | other -> other) in
          if not (eq m m_exp) then prop_line "C06" c "match-vs-query" "NONE" (string_of_obs m ^ " vs " ^ string_of_obs q);
          (* ExistsOrMatch dispatch: Match for a predicate check expression, Exists otherwise.  Whether the path IS a
             predicate check is read off the tree (one boolean-valued step, nothing after it), not off the
             implementation's own IsPredicate flag, which is checked against it *)
          let syn_pred = (match c.path.p_root with
              | [SBin ((BAnd | BOr | BEq | BNe | BLt | BGt | BLe | BGe | BStartsWith), _, _)] -> true
              | [SUn ((UExists | UNot | UIsUnknown), _)] -> true
              | [SRegex _] -> true
              | _ -> false) in
          if syn_pred <> c.path.p_pred then
            prop_line "C06" c "ispredicate-flag" "NONE" (Printf.sprintf "(IsPredicate %b, the tree says %b)" c.path.p_pred syn_pred);
          let em_exp = if syn_pred then m else x in
          if not (eq em em_exp) then prop_line "C06" c "eom-dispatch" "NONE" (string_of_obs em);
          (* Query succeeds => Exists = non-empty *)
          (match q with
           | ObItems l ->
             let want = ObBool (l <> []) in
             (* a silent Query may have swallowed a failure; then Exists may legitimately be NULL *)
             if not r.silent && not (eq x want) then
               prop_line "C06" c "exists-vs-successful-query" (narrow c r "exists" x (if unary_quirk c.path then "C06-unary-exists" else "NONE"))
                 (string_of_obs x ^ " vs " ^ string_of_obs q)
           | _ -> ());
          (* strict: Exists never hides an error Query reports *)
          (match q with
           | ObErr e when not c.path.p_lax && not r.silent ->
             if not (eq x (ObErr e)) then
               prop_line "C06" c "strict-exists-hides-error" "NONE" (string_of_obs x ^ " vs " ^ string_of_obs q)
           | _ -> ());
          (* Exists true => the complete evaluation yields an item (specification trace) *)
          (match x with
           | ObBool true when not (reads_kv_id c) ->
             missed := false;
             let (items, _) = api_sem_of lib quirks_code c.path c.doc (opts_of c r) in
             if items = [] && not !missed then
               prop_line "C06" c "exists-true-without-item" (narrow c r "exists" x (if unary_quirk c.path then "C06-unary-exists" else "NONE")) (string_of_obs x)
           | _ -> ())
        | _ -> ()
      end) c.runs

(* C08: WithSilent suppresses exactly the suppressible errors *)
let check_c08 (c : case) =
  match find_run c false (-1), find_run c true (-1) with
  | Some v, Some s when not c.unordered ->
    List.iter (fun (entry, (so, _)) ->
        (match so with
         | ObErr OEVerbose -> prop_line "C08" c ("silent-returns-suppressible-" ^ entry) "NONE" (string_of_obs so)
         | _ -> ());
        match obs_in v entry with
        | Some vo ->
          let eq a b = obs_eqb false c.kv a b in
          (match vo with
           | ObErr OEVerbose ->
             (* the silent run must not fail with an error object other than NULL *)
             (match so with
              | ObErr OENull when entry <> "query" && entry <> "first" -> ()
              | ObErr _ -> prop_line "C08" c ("suppressible-becomes-error-" ^ entry) "NONE" (string_of_obs vo ^ " -> " ^ string_of_obs so)
              | _ -> ())
           | ObErr e ->
             (* non-suppressible: unchanged *)
             if not (eq so vo) then
               prop_line "C08" c ("hard-error-changed-" ^ entry) "NONE" (string_of_obs vo ^ " -> " ^ string_of_obs so)
           | _ ->
             (* success: identical result *)
             if not (eq so vo) then
               prop_line "C08" c ("success-changed-" ^ entry) "NONE" (string_of_obs vo ^ " -> " ^ string_of_obs so))
        | None -> ()) s.entries
  | _ -> ()

(* C20: cancellation at every poll *)
let check_c20 (c : case) =
  match find_run c false (-1), find_run c true (-1) with
  | Some v0, Some s0 ->
    let base silent = if silent then s0 else v0 in
    List.iter (fun r ->
        if r.k >= 0 then begin
          bump "cancel_runs";
          let b = base r.silent in
          List.iter (fun (entry, (o, polls)) ->
              let ref_entry = (match entry with
                  | "exists" -> "exists"
                  | "eom" -> if c.path.p_pred then "query" else "exists"
                  | _ -> "query") in
              let total = (match polls_in b ref_entry with Some n -> n | None -> 0) in
              (* a context that is done before the call is always reported, whatever the path: every evaluation
                 polls at least once (C20_every_run_polls) *)
              if r.k = 0 && total = 0 then
                (match o with
                 | ObErr OECancel -> ()
                 | _ -> prop_line "C20" c (Printf.sprintf "done-before-the-call-%s-%s-%s" entry (if r.silent then "silent" else "verbose") r.cause)
                          "NONE" (string_of_obs o));
              if r.k < total then begin
                (* the context is done at a poll this evaluation reaches *)
                (match o with
                 | ObErr OECancel -> ()
                 | _ -> prop_line "C20" c (Printf.sprintf "cancel-at-%d-of-%d-%s-%s-%s" r.k total entry (if r.silent then "silent" else "verbose") r.cause)
                          "NONE" (string_of_obs o));
                (match polls with
                 | Some n when n > r.k + 1 ->
                   prop_line "C20" c (Printf.sprintf "polls-after-cancel-%s" entry) "NONE" (Printf.sprintf "(k %d polls %d)" r.k n)
                 | _ -> ())
              end else begin
                (* never reached: the result is the uncancelled one *)
                match obs_in b entry with
                | Some o0 -> if not (obs_eqb c.unordered c.kv o o0) && not c.unordered then
                    prop_line "C20" c (Printf.sprintf "unreached-cancel-changes-result-%s" entry) "NONE" (string_of_obs o)
                | None -> ()
              end) r.entries
        end) c.runs
  | _ -> ()

(* C13: arithmetic against the exact specification *)
let string_of_ares = function
  | AInt z -> "(i " ^ string_of_z z ^ ")"
  | AFloat f -> "(f " ^ string_of_z (f64_to_bits f) ^ ")"
  | AErrVerbose -> "(err verbose)"
  | ANotNumeric -> "(err verbose)"

let check_c13 (c : case) =
  let lib = lib_of c in
  let var name = List.assoc_opt (chars name) c.vars in
  match find_run c false (-1) with
  | Some r ->
    (match obs_in r "query" with
     | Some impl ->
       let expect =
         (match c.path.p_root, var "x", var "y" with
          | [SBin (op, [SVar ['x']], [SVar ['y']])], Some x, Some y when is_arith (SBin (op, [], [])) && not (is_container x) && not (is_container y) ->
            Some (arith_spec lib op x y)
          | [SUn (UMinus, [SVar ['x']])], Some x, _ when not (is_container x) -> Some (neg_spec lib x)
          | [SVar ['x']; SMeth MAbs], Some x, _ when not (is_container x) -> Some (abs_spec lib x)
          | _ -> None) in
       (match expect with
        | Some e ->
          bump "c13_checked";
          let want = (match e with
              | AInt z -> ObItems [JNum (NInt z)]
              | AFloat f -> ObItems [JNum (NFlt f)]
              | AErrVerbose | ANotNumeric -> ObErr OEVerbose) in
          if not (obs_eqb false None impl want) then begin
            let overflow = (match impl, e with
                | ObItems [JNum (NInt _)], AFloat _ -> true   (* an integer where the exact result does not fit *)
                | _ -> false) in
            prop_line "C13" c "exact-or-double" (narrow c r "query" impl (if overflow then "C13-int64-wrap" else "NONE"))
              (string_of_obs impl ^ " expected " ^ string_of_ares e)
          end;
          (match impl with
           | ObItems items when List.exists (json_exists nonfinite) items ->
             prop_line "C13" c "nonfinite-result" (narrow c r "query" impl "C05-float-overflow-inf") (string_of_obs impl)
           | _ -> ())
        | None -> ())
     | None -> ())
  | None -> ()

(* C16: ranges of the converters, .string() round trip, keyvalue ids *)
let check_c16 (c : case) =
  match find_run c false (-1), find_run c true (-1) with
  | Some r, Some rs ->
    (match obs_in r "query" with
     | Some impl ->
       let last = (match List.rev c.path.p_root with s :: _ -> Some s | [] -> None) in
       let items = (match impl with ObItems l -> l | _ -> []) in
       let in_range lo hi z = Z.compare z (z_of_string lo) <> Lt && Z.compare z (z_of_string hi) <> Gt in
       List.iter (fun it ->
           match last, it with
           | Some (SMeth MInteger), JNum (NInt z) ->
             if not (in_range "-2147483648" "2147483647" z) then prop_line "C16" c "integer-out-of-int32" "NONE" (string_of_json it)
           | Some (SMeth MInteger), _ -> prop_line "C16" c "integer-returns-non-integer" "NONE" (string_of_json it)
           | Some (SMeth MBigInt), JNum (NInt z) ->
             if not (in_range "-9223372036854775808" "9223372036854775807" z) then prop_line "C16" c "bigint-out-of-int64" "NONE" (string_of_json it)
           | Some (SMeth MBigInt), _ -> prop_line "C16" c "bigint-returns-non-integer" "NONE" (string_of_json it)
           | Some (SMeth (MDouble | MNumber)), JNum (NFlt f) ->
             if nonfinite it then prop_line "C16" c "double-nonfinite" "NONE" (string_of_json it)
           | Some (SMeth (MDouble | MNumber)), _ -> prop_line "C16" c "double-returns-non-double" "NONE" (string_of_json it)
           | Some (SDecimal (Some p, sc)), JNum (NFlt f) ->
             if nonfinite it then prop_line "C16" c "decimal-nonfinite" (narrow c r "query" impl "C16-decimal-nan") (string_of_json it)
             else begin
               (* at most p - s digits before the decimal point *)
               let s = (match sc with Some s -> int_of_z s | None -> 0) in
               let digits = int_of_z p - s in
               let limit = f64_pow10 (z_of_int digits) in
               (match f64_cmp (f64_abs f) limit with
                | Some Lt -> ()
                | _ -> if digits >= 0 && digits < 300 then
                    prop_line "C16" c "decimal-exceeds-precision" (narrow c r "query" impl "C16-decimal-zero-digits") (string_of_json it))
             end
           | Some (SMeth MBoolean), JBool _ -> ()
           | Some (SMeth MBoolean), _ -> prop_line "C16" c "boolean-returns-non-boolean" "NONE" (string_of_json it)
           | Some (SMeth MString), JStr _ -> ()
           | Some (SMeth MString), _ -> prop_line "C16" c "string-returns-non-string" "NONE" (string_of_json it)
           | Some (SMeth MType), JStr _ -> ()
           | Some (SMeth MType), _ -> prop_line "C16" c "type-returns-non-string" "NONE" (string_of_json it)
           | _ -> ()) items;
       (* "$x.m() == $x.string().m()" must not be false *)
       (match c.path.p_root, List.assoc_opt ['x'] c.vars with
        | [SBin (BEq, (SVar ['x'] :: [m1]), (SVar ['x'] :: SMeth MString :: [m2]))], Some x when m1 = m2 ->
          (* the matching method for the type of x *)
          let matching = (match x, m1 with
              | JNum (NFlt _), SMeth (MDouble | MNumber) -> true
              | JNum (NInt _), SMeth (MBigInt | MInteger | MDouble | MNumber) -> true
              | JNum (NJs _), SMeth (MBigInt | MInteger | MDouble | MNumber | MBoolean) -> true
              | JBool _, SMeth MBoolean -> true
              | JStr _, _ -> true
              | _ -> false) in
          (match impl with
           | ObItems [JBool false] when matching -> prop_line "C16" c "string-roundtrip" "NONE" (string_of_obs impl)
           | _ -> ())
        | _ -> ());
       (* keyvalue ids: equal within an object, stable over repeated executions *)
       if c.haskv && not c.unordered then begin
         (match obs_in rs "query", impl with
          | Some (ObItems l2), ObItems l1 ->
            if not (obs_eqb false None (ObItems l1) (ObItems l2)) then begin
              let nkv = List.length (List.filter is_kv c.path.p_root) in
              prop_line "C16" c "keyvalue-ids-unstable" (if nkv >= 2 then "C16-keyvalue-generated-ids" else "NONE")
                (string_of_obs (ObItems l1) ^ " vs " ^ string_of_obs (ObItems l2))
            end
          | _ -> ())
       end
     | None -> ())
  | _ -> ()

(* ---------- C12: order axioms over the table of "$x OP $y" results ---------- *)
let cmp_table : (string * string * string, (string * int) ) Hashtbl.t = Hashtbl.create 4096
(* key (mode, x, y) -> per-op outcome stored separately *)
let cmp_cells : (string, int) Hashtbl.t = Hashtbl.create 65536   (* "mode|x|y|op" -> 0 F,1 T,2 U,3 E *)
let cmp_vals : (string, json) Hashtbl.t = Hashtbl.create 128
let cmp_case : (string, case) Hashtbl.t = Hashtbl.create 128

let opname = function BEq -> "eq" | BNe -> "ne" | BLt -> "lt" | BGt -> "gt" | BLe -> "le" | BGe -> "ge" | _ -> "?"

let cmp_modes : string list ref = ref []
let cmp_ids : (string, string list) Hashtbl.t = Hashtbl.create 4096
let collect_c12 (c : case) =
  let shape = (match c.path.p_root with
      | [SBin ((BEq | BNe | BLt | BGt | BLe | BGe) as op, [SVar ['x']], [SVar ['y']])] -> Some (op, "", "")
      (* the same operators on datetime items: "$x.datetime() OP $y.datetime()" under WithTZ in a fixed-offset zone *)
      | [SBin ((BEq | BNe | BLt | BGt | BLe | BGe) as op, [SVar ['x']; SDt (DDateTime, None, None)], [SVar ['y']; SDt (DDateTime, None, None)])]
        when c.usetz -> Some (op, "dt:", "+tz" ^ string_of_z c.tzoff)
      | _ -> None) in
  match shape, List.assoc_opt ['x'] c.vars, List.assoc_opt ['y'] c.vars, find_run c false (-1) with
  | Some (op, pre, suf), Some x, Some y, Some r ->
    (match obs_in r "query" with
     | Some impl ->
       let out = (match impl with
           | ObItems [JBool false] -> 0 | ObItems [JBool true] -> 1 | ObItems [JNull] -> 2 | _ -> 3) in
       let mode = (if c.path.p_lax then "lax" else "strict") ^ suf in
       if not (List.mem mode !cmp_modes) then cmp_modes := mode :: !cmp_modes;
       let sx = pre ^ string_of_json x and sy = pre ^ string_of_json y in
       Hashtbl.replace cmp_vals sx x; Hashtbl.replace cmp_vals sy y;
       Hashtbl.replace cmp_cells (String.concat "|" [mode; sx; sy; opname op]) out;
       Hashtbl.replace cmp_case (String.concat "|" [mode; sx; sy]) c;
       Hashtbl.replace cmp_ids (String.concat "|" [mode; sx; sy]) (c.id :: (try Hashtbl.find cmp_ids (String.concat "|" [mode; sx; sy]) with Not_found -> []))
     | None -> ())
  | _ -> ()

(* an integer-valued number of magnitude above 2^53 in some representation: comparison with another representation goes through float64 *)
let big_number lib (v : json) : bool =
  match v with
  | JNum (NInt z) -> Z.compare (Z.abs z) (z_of_string "9007199254740992") = Gt
  | JNum (NFlt f) -> (match f64_cmp (f64_abs f) (f64_of_Z (z_of_string "9007199254740992")) with Some Lt -> false | _ -> true)
  | JNum (NJs _) -> true
  | _ -> false

let finish_c12 () =
  let lib = mk_lib (ctx_fixed Z0 now_sec) (fun _ _ _ -> false) members_in_order in
  let vals = Hashtbl.fold (fun k _ acc -> k :: acc) cmp_vals [] in
  let cell mode x y op = Hashtbl.find_opt cmp_cells (String.concat "|" [mode; x; y; op]) in
  let report mode x y clause cls detail =
    match Hashtbl.find_opt cmp_case (String.concat "|" [mode; x; y]) with
    | Some c ->
      let cls = (match find_run c false (-1) with
          | Some r -> (match obs_in r "query" with Some impl -> narrow c r "query" impl cls | None -> cls)
          | None -> cls) in
      (* every case of the pairs among the values involved (x, y and, for transitivity, the middle value) *)
      let vs = x :: y :: (if String.length detail > 4 && String.sub detail 0 4 = "via " then [String.sub detail 4 (String.length detail - 4)] else []) in
      related := List.concat_map (fun a -> List.concat_map (fun b ->
          try Hashtbl.find cmp_ids (String.concat "|" [mode; a; b]) with Not_found -> []) vs) vs;
      prop_line "C12" c clause cls detail;
      related := []
    | None -> () in
  let cls_of xs = if List.exists (fun x -> big_number lib (Hashtbl.find cmp_vals x)) xs then "C12-mixed-number-precision" else "NONE" in
  List.iter (fun mode ->
      (* in lax mode an array operand is unwrapped into a sequence: the order axioms are about items *)
      let is_arr x = (match Hashtbl.find cmp_vals x with JArr _ -> true | _ -> false) in
      let vals = if String.length mode >= 3 && String.sub mode 0 3 = "lax" then List.filter (fun x -> not (is_arr x)) vals else vals in
      List.iter (fun x ->
          List.iter (fun y ->
              match cell mode x y "eq", cell mode x y "ne", cell mode x y "lt", cell mode x y "gt", cell mode x y "le", cell mode x y "ge" with
              | Some eq, Some ne, Some lt, Some gt, Some le, Some ge ->
                bump "c12_pairs";
                let all = [eq; ne; lt; gt; le; ge] in
                if List.mem 3 all then report mode x y "comparison-error" "NONE" (Printf.sprintf "%d%d%d%d%d%d" eq ne lt gt le ge)
                else if List.mem 2 all then begin
                  (* unknown: then every operator is unknown (incomparable), except the null rule which never yields unknown *)
                  if not (List.for_all (fun v -> v = 2) all) then
                    report mode x y "partly-unknown" "NONE" (Printf.sprintf "%d%d%d%d%d%d" eq ne lt gt le ge)
                end else begin
                  let vx = Hashtbl.find cmp_vals x and vy = Hashtbl.find cmp_vals y in
                  let nullrule = (vx = JNull) <> (vy = JNull) in
                  if nullrule then begin
                    if not (eq = 0 && ne = 1 && lt = 0 && gt = 0 && le = 0 && ge = 0) then
                      report mode x y "null-rule" "NONE" (Printf.sprintf "%d%d%d%d%d%d" eq ne lt gt le ge)
                  end else begin
                    if lt + eq + gt <> 1 then report mode x y "trichotomy" (cls_of [x; y]) (Printf.sprintf "lt=%d eq=%d gt=%d" lt eq gt);
                    if le <> (max lt eq) then report mode x y "le-is-lt-or-eq" (cls_of [x; y]) "";
                    if ge <> (max gt eq) then report mode x y "ge-is-gt-or-eq" (cls_of [x; y]) "";
                    if ne <> 1 - eq then report mode x y "ne-is-not-eq" (cls_of [x; y]) "";
                    (match cell mode y x "gt", cell mode y x "eq" with
                     | Some gt', Some eq' ->
                       if gt' <> lt then report mode x y "duality" (cls_of [x; y]) "x<y vs y>x";
                       if eq' <> eq then report mode x y "eq-symmetric" (cls_of [x; y]) ""
                     | _ -> ())
                  end
                end;
                if (is_container (Hashtbl.find cmp_vals x) || is_container (Hashtbl.find cmp_vals y))
                   && Hashtbl.find cmp_vals x <> JNull && Hashtbl.find cmp_vals y <> JNull then
                  if not (List.for_all (fun v -> v = 2) all) then
                    report mode x y "container-comparable" "NONE" ""
              | _ -> ()) vals) vals;
      (* transitivity over triples of scalars *)
      let scal = List.filter (fun x -> not (is_container (Hashtbl.find cmp_vals x))) vals in
      List.iter (fun x ->
          List.iter (fun y ->
              match cell mode x y "lt", cell mode x y "eq" with
              | Some ltxy, Some eqxy when ltxy = 1 || eqxy = 1 ->
                List.iter (fun z ->
                    match cell mode y z "lt", cell mode y z "eq", cell mode x z "lt", cell mode x z "eq" with
                    | Some ltyz, Some eqyz, Some ltxz, Some eqxz ->
                      bump "c12_triples";
                      if ltxy = 1 && ltyz = 1 && ltxz <> 1 then report mode x z "lt-transitive" (cls_of [x; y; z]) ("via " ^ y);
                      if eqxy = 1 && eqyz = 1 && eqxz <> 1 then report mode x z "eq-transitive" (cls_of [x; y; z]) ("via " ^ y);
                      if ltxy = 1 && eqyz = 1 && ltxz <> 1 then report mode x z "lt-eq-transitive" (cls_of [x; y; z]) ("via " ^ y);
                      if eqxy = 1 && ltyz = 1 && ltxz <> 1 then report mode x z "eq-lt-transitive" (cls_of [x; y; z]) ("via " ^ y)
                    | _ -> ()) scal
              | _ -> ()) scal) scal) (List.rev !cmp_modes)

(* ---------- groups: relations between several cases (C09, C10, C11) ---------- *)
let groups : (string, (string * case) list) Hashtbl.t = Hashtbl.create 256
let group_order : string list ref = ref []

let outcome4 (c : case) : int =   (* 0 F, 1 T, 2 U, 3 hard error, 4 other *)
  match find_run c false (-1) with
  | Some r -> (match obs_in r "query" with
      | Some (ObItems [JBool false]) -> 0
      | Some (ObItems [JBool true]) -> 1
      | Some (ObItems [JNull]) -> 2
      | Some (ObErr (OEExec | OECancel)) -> 3
      | _ -> 4)
  | None -> 4

let k_not = function 0 -> 1 | 1 -> 0 | x -> x
let k_and a b = if a = 3 then 3 else if a = 0 then 0 else if b = 3 then 3 else if b = 0 then 0 else if a = 2 || b = 2 then 2 else 1
let k_or a b = if a = 3 then 3 else if a = 1 then 1 else if b = 3 then 3 else if b = 1 then 1 else if a = 2 || b = 2 then 2 else 0
let k_isunknown a = if a = 3 then 3 else if a = 2 then 1 else 0

let query_verbose (c : case) : obs option =
  match find_run c false (-1) with Some r -> obs_in r "query" | None -> None

let finish_group (g : string) (members : (string * case) list) =
  related := List.map (fun (_, (c : case)) -> c.id) members;
  let get role = List.assoc_opt role members in
  match members with
  | (_, c0) :: _ when c0.family = "group11" ->
    (match get "p", get "q" with
     | Some p, Some q ->
       let op = outcome4 p and oq = outcome4 q in
       if op <> 4 && oq <> 4 then begin
         bump "c11_groups";
         let check role expected cls =
           match get role with
           | Some c ->
             let got = outcome4 c in
             if got <> expected then
               prop_line "C11" c ("kleene-" ^ role)
                 (let cls = if op = 3 || oq = 3 then cls else "NONE" in
                  match find_run c false (-1) with
                  | Some r -> (match obs_in r "query" with Some impl -> narrow c r "query" impl cls | None -> cls)
                  | None -> cls)
                 (Printf.sprintf "p=%d q=%d expected=%d got=%d" op oq expected got)
           | None -> () in
         check "and" (k_and op oq) "NONE";
         check "and_rev" (k_and oq op) "NONE";
         check "or" (k_or op oq) "NONE";
         check "or_rev" (k_or oq op) "NONE";
         check "not_p" (k_not op) "NONE";
         check "notnot_p" (k_not (k_not op)) "NONE";
         check "isunknown_p" (k_isunknown op) "C11-isunknown-hard-error";
         check "isunknown_isunknown_p" (k_isunknown (k_isunknown op)) "C11-isunknown-hard-error";
         check "nand" (k_not (k_and op oq)) "NONE";
         check "dm_or" (k_or (k_not op) (k_not oq)) "NONE";
         check "nor" (k_not (k_or op oq)) "NONE";
         check "dm_and" (k_and (k_not op) (k_not oq)) "NONE";
         (* commutativity in value when neither operand is a hard error *)
         (match get "and", get "and_rev", get "or", get "or_rev" with
          | Some a, Some ar, Some o, Some orr when op <> 3 && oq <> 3 ->
            if outcome4 a <> outcome4 ar then prop_line "C11" a "and-commutes" "NONE" "";
            if outcome4 o <> outcome4 orr then prop_line "C11" o "or-commutes" "NONE" ""
          | _ -> ());
         (* the same connectives inside a filter keep the item exactly when true *)
         List.iter (fun (role, c) ->
             (* in lax mode "$ ? (C)" on an array document filters its elements, not the document *)
             let doc_unwrapped = (match c.doc with JArr _ -> c.path.p_lax | _ -> false) in
             if String.length role > 7 && String.sub role 0 7 = "filter:" && not doc_unwrapped then begin
               let base = String.sub role 7 (String.length role - 7) in
               match get base, query_verbose c with
               | Some b, Some (ObItems items) ->
                 let ob = outcome4 b in
                 if ob <> 3 && ob <> 4 && ((ob = 1) <> (items <> [])) then
                   prop_line "C11" c ("filter-vs-predicate-" ^ base) "NONE" (Printf.sprintf "predicate=%d kept=%b" ob (items <> []))
               | Some b, Some (ObErr _) ->
                 if outcome4 b <> 3 then prop_line "C11" c ("filter-errors-" ^ base) "NONE" ""
               | _ -> ()
             end) members
       end
     | _ -> ())
  | (_, c0) :: _ when c0.family = "group9" ->
    (* PS = concatenation over the items of P of ($ S on the item), failing where the first fails *)
    (match get "PS", get "P" with
     | Some ps, Some p ->
       (match query_verbose ps, query_verbose p with
        | Some got, Some pres ->
          let pitems, pfail = (match pres with ObItems l -> l, None | other -> [], Some other) in
          (* when P fails verbosely we cannot see its items before the failure; use the silent run for suppressible failures *)
          let pitems = (match pfail, find_run p true (-1) with
              | Some (ObErr OEVerbose), Some r -> (match obs_in r "query" with Some (ObItems l) -> l | _ -> [])
              | _ -> pitems) in
          let n = List.length pitems in
          let rec go i acc =
            if i >= n then (match pfail with None -> ObItems (List.rev acc) | Some f -> f)
            else match get (Printf.sprintf "S@%d" i) with
              | Some si -> (match query_verbose si with
                  | Some (ObItems l) -> go (i + 1) (List.rev_append l acc)
                  | Some other -> other
                  | None -> ObWeird)
              | None -> ObWeird in
          let want = go 0 [] in
          (match pfail with
           | Some (ObErr (OEExec | OECancel | OEInvalid | OEOther | OENull)) | Some ObPanic | Some ObWeird -> ()   (* items before a hard failure are not observable *)
           | _ ->
             if want <> ObWeird then begin
               bump "c09_groups";
               if not (obs_eqb (ps.unordered || p.unordered) ps.kv got want) then
                 prop_line "C09" ps "composition" "NONE" (string_of_obs got ^ " vs " ^ string_of_obs want)
             end)
        | _ -> ())
     | _ -> ())
  | (_, c0) :: _ when c0.family = "group10" ->
    (* PF keeps exactly the candidates whose predicate check is [true], in order *)
    (match get "PF", get "P" with
     | Some pf, Some p ->
       (match query_verbose pf, query_verbose p with
        | Some got, Some (ObItems pitems) ->
          let cands = if pf.path.p_lax then List.concat_map (function JArr (_, es) -> es | x -> [x]) pitems else pitems in
          let n = List.length cands in
          let rec go i acc =
            if i >= n then ObItems (List.rev acc)
            else match get (Printf.sprintf "C@%d" i) with
              | Some ci -> (match query_verbose ci with
                  | Some (ObItems [JBool true]) -> go (i + 1) (List.nth cands i :: acc)
                  | Some (ObItems [JBool false]) | Some (ObItems [JNull]) -> go (i + 1) acc
                  | Some (ObErr e) -> ObErr e
                  | _ -> ObWeird)
              | None -> ObWeird in
          let want = go 0 [] in
          if want <> ObWeird then begin
            bump "c10_groups";
            if not (obs_eqb (pf.unordered || p.unordered) pf.kv got want) then
              prop_line "C10" pf "filter-keeps-exactly-true" "NONE" (string_of_obs got ^ " vs " ^ string_of_obs want)
          end
        | _ -> ())
     | _ -> ())
  | _ -> ()

let note_group (c : case) =
  match c.group with
  | Some (g, role) ->
    if not (Hashtbl.mem groups g) then group_order := g :: !group_order;
    Hashtbl.replace groups g ((role, c) :: (try Hashtbl.find groups g with Not_found -> []))
  | None -> ()

(* ---------- main ---------- *)
let () =
  let file = Sys.argv.(1) in
  let ic = open_in file in
  let seen : (string, unit) Hashtbl.t = Hashtbl.create 4096 in
  (try
     while true do
       let line = input_line ic in
       if String.length line > 0 then begin
         match Sexp.parse line with
         | L (A "case" :: A id :: A family :: rest) ->
           bump "cases";
           (try
              let c = parse_case rest id family in
              (* distinct and non-trivial: new inputs whose evaluation polled the context at least
                 twice (went beyond the first step) or returned a classified error *)
              let key = Digest.string (String.concat "\000" [c.text; Sexp.to_string (L (field "doc" rest)); Sexp.to_string (L (field "vars" rest));
                                                             string_of_bool c.usetz; string_of_z c.tzoff]) in
              if not (Hashtbl.mem seen key) then begin
                Hashtbl.add seen key ();
                let nontrivial = List.exists (fun r ->
                    match List.assoc_opt "query" r.entries with
                    | Some (o, Some n) -> n >= 2 || is_err o
                    | _ -> false) c.runs in
                if nontrivial then bump "distinct_nontrivial"
              end;
              (* relations computed by the harness on the values in memory *)
              (match field_opt "hprops" rest with
               | Some l -> List.iter (function
                   | L [S tag; S clause; S detail] -> prop_line tag c clause "NONE" ("(" ^ detail ^ ")")
                   | _ -> ()) l
               | None -> ());
              tie_leg c;
              spec_leg c;
              thm_leg c;
              check_c05 c;
              check_c06 c;
              check_c08 c;
              if c.family = "cancel" || List.exists (fun r -> r.k >= 0) c.runs then check_c20 c;
              check_c13 c;
              check_c16 c;
              collect_c12 c;
              note_group c
            with Bad why -> bump "skipped"; Printf.printf "SKIP %s %s\n" id (qs why))
         | _ -> ()
       end
     done
   with End_of_file -> ());
  finish_c12 ();
  List.iter (fun g -> finish_group g (List.rev (Hashtbl.find groups g)); related := []) (List.rev !group_order);
  Printf.printf "STAT distinct_nontrivial n=%d\n" (count "distinct_nontrivial");
  List.iter (fun name -> if count name > 0 then Printf.printf "STAT %s n=%d\n" name (count name))
    ["skipped_kv_id_flows"; "skipped_order_dependent"; "thm_cases"; "thm_hyp_ok"; "thm_hyp_quirk_free"; "thm_instances"; "thm_ideal_instances"; "thm_total_instances"; "thm_failures"; "thm_premise_not_ret"; "thm_hyp_no_kv_fails"; "thm_hyp_exists_ok_fails";
     "thm_hyp_ne_ops_fails"; "thm_hyp_unary_tail_free_fails"; "c12_pairs"; "c12_triples"; "c13_checked"; "c11_groups"; "c09_groups"; "c10_groups"; "cancel_runs";
     "prop_C05"; "prop_C06"; "prop_C08"; "prop_C09"; "prop_C10"; "prop_C11"; "prop_C12"; "prop_C13"; "prop_C16"; "prop_C20"];
  Printf.printf "SUMMARY cases=%d runs=%d comparisons=%d ties=%d polls=%d impure=%d skipped=%d oracle_miss=%d spec_comparisons=%d spec_mismatches=%d\n"
    (count "cases") (count "runs") (count "comparisons") (count "ties") (count "polls") (count "impure") (count "skipped")
    (count "oracle_miss") (count "spec_comparisons") (count "spec_mismatches")
