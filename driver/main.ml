(* sjdriver: reads the cases written by sjharness (with the implementation's
   observed results), runs the extracted Coq model on the same inputs and
   reports every disagreement of projected observables.

     sjdriver CASES.sexp > report.txt

   Output lines:
     TIE <id> <family> <entry> silent=<b> k=<k> impl=<obs> model=<obs> text=<path>
     POLLS <id> <family> <entry> silent=<b> k=<k> impl=<n> model=<n> text=<path>
     IMPURE <id> ...        (the implementation modified its inputs)
     SKIP <id> <why>
     SUMMARY cases=<n> runs=<n> ties=<n> ... *)
open Model
open Sexp
open Conv

let fuel = nat_of_int 100000

let field (name : string) (items : Sexp.t list) : Sexp.t list =
  let rec go = function
    | L (A n :: rest) :: _ when n = name -> rest
    | _ :: tl -> go tl
    | [] -> raise (Bad ("missing field " ^ name)) in
  go items

let now_sec = z_of_string "1790000000"

exception Oracle_miss

(* known finding C06-unary-exists: in existence mode (Exists, or exists() in lax
   mode) a unary + or - that is the last step of its chain hands a non-numeric
   operand on as if it were a result *)
let last_is_unary (c : chain) : bool =
  match List.rev c with
  | SUn ((UPlus | UMinus), _) :: _ -> true
  | _ -> false
let unary_quirk (p : path) : bool =
  last_is_unary p.p_root ||
  chain_has (function SUn (UExists, a) -> last_is_unary a | _ -> false) p.p_root

let () =
  let file = Sys.argv.(1) in
  let ic = open_in file in
  let ncases = ref 0 and nruns = ref 0 and nties = ref 0 and npolls = ref 0
  and nskip = ref 0 and nimpure = ref 0 and nmiss = ref 0 and ncmp = ref 0
  and nspec = ref 0 and nspecbad = ref 0 and ndistinct = ref 0 in
  let seen : (string, unit) Hashtbl.t = Hashtbl.create 4096 in
  (try
     while true do
       let line = input_line ic in
       if String.length line > 0 then begin
         match Sexp.parse line with
         | L (A "case" :: A id :: A family :: rest) ->
           incr ncases;
           (try
              reset_tags ();
              let text = (match field "text" rest with [S t] -> t | _ -> raise (Bad "text")) in
              let path = (match List.find (function L (A "path" :: _) -> true | _ -> false) rest with p -> path_of_sexp p) in
              let doc = (match field "doc" rest with [d] -> json_of_sexp d | _ -> raise (Bad "doc")) in
              let vars = List.map (function L [S k; v] -> (chars k, json_of_sexp v) | _ -> raise (Bad "var")) (field "vars" rest) in
              let vars_tag = fresh_tag () in
              let next_tag = fresh_tag () in
              let usetz = (match field "usetz" rest with [A b] -> b = "true" | _ -> false) in
              let tzoff = (match field "tz" rest with [A n] -> z_of_string n | _ -> Z0) in
              let unordered = (match field "unordered" rest with [A b] -> b = "true" | _ -> false) in
              let haskv = chain_has is_kv path.p_root in
              let unordered = unordered || (haskv && chain_has is_wild path.p_root) in
              let kv = if haskv then
                  Some (List.fold_left (fun a (_, v) -> json_ints v a) (json_ints doc (chain_ints path.p_root [])) vars)
                else None in
              let retab = List.map (function
                  | L [S pat; A flags; S subj; A b] -> ((pat, int_of_string flags, subj), b = "true")
                  | _ -> raise (Bad "re")) (field "re" rest) in
              let missed = ref false in
              let re pat flags subj =
                match List.assoc_opt (unchars pat, int_of_z flags, unchars subj) retab with
                | Some b -> b
                | None -> missed := true; false in
              let lib = mk_lib (ctx_fixed tzoff now_sec) re members_in_order in
              let pure = (match field "pure" rest with [A b] -> b = "true" | _ -> true) in
              (* distinct and non-trivial: new inputs whose evaluation polled the context at least
                 twice (went beyond the first step) or returned a classified error *)
              let key = Digest.string (String.concat "\000" [text; Sexp.to_string (L (field "doc" rest)); Sexp.to_string (L (field "vars" rest));
                                                             Sexp.to_string (L (field "usetz" rest)); Sexp.to_string (L (field "tz" rest))]) in
              if not (Hashtbl.mem seen key) then begin
                Hashtbl.add seen key ();
                let nontrivial = List.exists (function
                    | L (A "run" :: _ :: _ :: _ :: entries) ->
                      List.exists (function
                          | L [A "query"; r; A n] -> int_of_string n >= 2 || (match r with L (A "err" :: _) -> true | _ -> false)
                          | _ -> false) entries
                    | _ -> false) (field "runs" rest) in
                if nontrivial then incr ndistinct
              end;
              if not pure then begin incr nimpure; Printf.printf "IMPURE %s %s text=%s\n" id family (qs text) end;
              List.iter (function
                  | L (A "run" :: A silent :: A k :: A _cause :: entries) ->
                    incr nruns;
                    let silent_b = (silent = "true") in
                    let kk = int_of_string k in
                    let o = { o_vars = vars; o_vars_tag = vars_tag; o_silent = silent_b; o_useTZ = usetz;
                              o_cancel_at = (if kk < 0 then None else Some (nat_of_int kk)); o_next_tag = next_tag } in
                    let spec_obs entry q =
                      match entry with
                      | "query" -> obs_of_q (Ret (api_spec_query lib q path doc o))
                      | "first" -> obs_of_f (Ret (api_spec_first lib q path doc o))
                      | "exists" -> obs_of_b (Ret (api_spec_exists lib q path doc o))
                      | "match" -> obs_of_b (Ret (api_spec_match lib q path doc o))
                      | _ -> obs_of_b (Ret (api_spec_eom lib q path doc o)) in
                    let check_spec entry impl =
                      if kk < 0 then begin
                        let comparable =
                          if not unordered then true
                          else (entry = "query" && not silent_b
                                && (match impl with ObItems _ -> true | _ -> false)) in
                        let un = unordered || haskv in
                        let eq q = obs_eqb un kv impl (spec_obs entry q) in
                        if comparable then begin
                          incr nspec;
                          if not (eq quirks_ideal) then begin
                            let cls =
                              if eq { q_skip_null = true; q_iu_swallow = false } then "C14-null-subscript"
                              else if eq { q_skip_null = false; q_iu_swallow = true } then "C11-isunknown-hard-error"
                              else if eq quirks_code then "C14-null-subscript+C11-isunknown-hard-error"
                              else if unary_quirk path then "C06-unary-exists"
                              else "NONE" in
                            if !missed then incr nmiss
                            else begin
                              incr nspecbad;
                              Printf.printf "SPEC %s %s %s silent=%b class=%s impl=%s spec=%s text=%s\n"
                                id family entry silent_b cls (string_of_obs impl)
                                (string_of_obs (spec_obs entry quirks_ideal)) (qs text)
                            end
                          end
                        end
                      end in
                    let check entry impl_s model_obs =
                      let impl = obs_of_sexp impl_s in
                      check_spec entry impl;
                      incr ncmp;
                      (* unordered cases: only successful verbose-independent Query results are comparable *)
                      let comparable =
                        if not unordered then true
                        else (entry = "query" && not silent_b && kk < 0
                              && (match impl, model_obs with ObItems _, ObItems _ -> true | _ -> false)) in
                      if comparable && not (obs_eqb unordered kv impl model_obs) then begin
                        if !missed then incr nmiss
                        else begin
                          incr nties;
                          Printf.printf "TIE %s %s %s silent=%b k=%d impl=%s model=%s text=%s\n"
                            id family entry silent_b kk (string_of_obs impl) (string_of_obs model_obs) (qs text)
                        end
                      end in
                    let check_polls entry impl_n vals =
                      if not unordered then
                        match api_polls lib fuel path doc o vals with
                        | Ret n ->
                          let m = int_of_nat n in
                          if m <> impl_n && not !missed then begin
                            incr npolls;
                            Printf.printf "POLLS %s %s %s silent=%b k=%d impl=%d model=%d text=%s\n" id family entry silent_b kk impl_n m (qs text)
                          end
                        | _ -> () in
                    List.iter (function
                        | L [A "query"; r; A n] ->
                          check "query" r (obs_of_q (api_query lib fuel path doc o));
                          check_polls "query" (int_of_string n) (Some [])
                        | L [A "first"; r] -> check "first" r (obs_of_f (api_first lib fuel path doc o))
                        | L [A "exists"; r; A n] ->
                          check "exists" r (obs_of_b (api_exists lib fuel path doc o));
                          check_polls "exists" (int_of_string n) None
                        | L [A "match"; r] -> check "match" r (obs_of_b (api_match lib fuel path doc o))
                        | L [A "eom"; r] -> check "eom" r (obs_of_b (api_eom lib fuel path doc o))
                        | _ -> ()) entries
                  | _ -> ()) (field "runs" rest)
            with Bad why -> incr nskip; Printf.printf "SKIP %s %s\n" id (qs why))
         | _ -> ()
       end
     done
   with End_of_file -> ());
  Printf.printf "STAT distinct_nontrivial n=%d\n" !ndistinct;
  Printf.printf "SUMMARY cases=%d runs=%d comparisons=%d ties=%d polls=%d impure=%d skipped=%d oracle_miss=%d spec_comparisons=%d spec_mismatches=%d\n"
    !ncases !nruns !ncmp !nties !npolls !nimpure !nskip !nmiss !nspec !nspecbad
