"""yacccheck — translator tie for the parser's generated code.

path/parser/grammar.go is the output of goyacc on path/parser/grammar.y (see the go:generate line in
parser.go).  The reference parser of the Coq model (model/Parser.v) and the translated tables
(gen/Priorities.v, gen/Keywords.v) are read off grammar.y; this obligation checks that the code that is
actually compiled, grammar.go, is what goyacc (x/tools v0.29.0, built offline from the module cache)
generates from the current grammar.y, ignoring `//line` directives.  A difference means the compiled
parser is not the one the grammar describes: the obligation is reported as broken and the search leg runs."""
import os, subprocess, shutil

ROOT = os.path.dirname(os.path.dirname(os.path.abspath(__file__)))
BUILD = os.path.join(ROOT, 'build')
ENV = dict(os.environ, GOFLAGS='-mod=mod', GOPROXY='off', GOSUMDB='off', GOTOOLCHAIN='local')


def ensure_goyacc():
    exe = os.path.join(BUILD, 'goyacc')
    if os.path.exists(exe):
        return exe, None
    r = subprocess.run(['flock', os.path.join(BUILD, '.lock'), 'go', 'build', '-o', exe, 'golang.org/x/tools/cmd/goyacc'],
                       cwd=os.path.join(ROOT, 'tools', 'yacc'), env=ENV, capture_output=True, text=True)
    if r.returncode != 0:
        return None, (r.stdout + r.stderr)[-400:]
    return exe, None


def strip(text):
    return [l for l in text.splitlines() if not l.startswith('//line ')]


def check(repo, tag):
    """returns (ok, detail)"""
    exe, err = ensure_goyacc()
    if not exe:
        return False, 'goyacc could not be built: ' + err
    d = os.path.join(BUILD, 'run', 'yacc_' + tag)
    shutil.rmtree(d, ignore_errors=True)
    os.makedirs(d)
    src = os.path.join(repo, 'path', 'parser', 'grammar.y')
    shutil.copy(src, os.path.join(d, 'grammar.y'))
    r = subprocess.run([exe, '-v', '', '-o', 'grammar.go', '-p', 'path', 'grammar.y'], cwd=d, capture_output=True, text=True)
    if r.returncode != 0 or not os.path.exists(os.path.join(d, 'grammar.go')):
        return False, 'goyacc fails on grammar.y: ' + (r.stdout + r.stderr)[-300:]
    with open(os.path.join(d, 'grammar.go'), errors='replace') as f:
        gen = strip(f.read())
    with open(os.path.join(repo, 'path', 'parser', 'grammar.go'), errors='replace') as f:
        have = strip(f.read())
    shutil.rmtree(d, ignore_errors=True)
    if gen == have:
        return True, 'grammar.go = goyacc(grammar.y): %d lines' % len(have)
    for i, (a, b) in enumerate(zip(gen, have)):
        if a != b:
            return False, 'path/parser/grammar.go differs from goyacc(grammar.y) at line %d: generated %r, in the tree %r' % (i + 1, a[:120], b[:120])
    return False, 'path/parser/grammar.go differs from goyacc(grammar.y) in length: %d vs %d lines' % (len(gen), len(have))


if __name__ == '__main__':
    import sys
    print(check(sys.argv[1] if len(sys.argv) > 1 else '/repo', 'cli'))
