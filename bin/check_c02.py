"""bin/check C02: canonical text round-trips (see parsecheck.py for the three legs).

Search leg: every generated input that path.Parse accepts is printed and re-read through
String/Parse, MarshalText/UnmarshalText, MarshalBinary/UnmarshalBinary, Value/Scan (string and
[]byte); tree (accessor walk), mode, predicate flag and String() must be preserved, and Query
must return the same items / error class on a pool of documents (float64 and json.Number
decoding, with and without WithSilent).  Failures inside the two listed known-finding classes
(classified on the Go tree by tools/parsevec/search.go) are reported as KNOWN-FINDING."""
import json, collections
import parsecheck as pc

SIZES = {'quick': dict(n_random=6000, n_numbers=400), 'thorough': dict(n_random=120000, n_numbers=8000)}
TIE = {'quick': 5000, 'thorough': 120000}

RULE = ('search inputs: every (parent operator slot x child operator x trailing accessor chain) combination rendered from abstract trees, every code-point '
        'class (C0/C1 controls, DEL, quotes, backslash, BMP non-printables, U+2028, astral printable / non-printable) in strings, keys, variables, '
        'like_regex patterns, datetime templates and starts-with arguments, a grid of numeric literals (integers in all bases, fractions, exponents, '
        'huge / tiny / integral-valued floats), all .** bound combinations, all flag strings over "ismxq" up to length 4, random abstract trees in '
        'canonical and alternative spellings, random grammar-directed texts; all random choices from one PRNG seeded with VERIF_SEED. An input counts as '
        'distinct and non-trivial when its byte string is new in this run and path.Parse accepts it (only accepted inputs have a canonical text to round-trip); '
        'counted by this run. Tie inputs: tools/parsevec/gen.py families A-D plus the printed form of every accepted input.')
ASSUME = ['the tree is observed through the exported accessors of path/ast (plus reflection for RegexNode.pattern / flags)',
          'Query results are compared as multisets (object member order is not fixed), errors by class (ErrVerbose / ErrExecution / ErrInvalid / other), '
          '.keyvalue() ids masked',
          'behavioural equality is sampled on a fixed pool of 10 documents x {float64, json.Number} x {verbose, silent}; "every document" is covered by the tree equality']
CANNOT = ['paths that cannot be produced by Parse (trees built with the ast constructors directly) are out of scope of the search leg',
          'a printing defect confined to trees that also contain an integral-valued numeric literal or an unparenthesised operator-with-accessor-chain is '
          'attributed to those known-finding classes (the classes are per tree, not per failing node)']


def search(rundir, tier, seed, log, only):
    pc.gen.reseed(seed)
    if only is not None:
        inputs, tags = [only['input']], ['replay']
    else:
        inputs, tags = pc.gen_search.c02_cases(**SIZES[tier])
        for d in pc.corpus('C02'):
            inputs.append(d['_bytes'])
            tags.append('corpus-file')
    out = pc.run_go(rundir, '-c02', inputs, 'c02')
    if len(out) != len(inputs):
        raise RuntimeError('parsevec -c02: %d lines for %d inputs' % (len(out), len(inputs)))
    hist = {'generator': collections.Counter(tags), 'accept_reject': collections.Counter(), 'error_kinds': collections.Counter(), 'node_kinds': collections.Counter(),
            'operator_triples': collections.Counter(), 'code_point_classes': collections.Counter(), 'failed_checks': collections.Counter(), 'queries_compared': 0}
    failures, samples = [], []
    distinct = set()
    for i, (b, tag, o) in enumerate(zip(inputs, tags, out)):
        if o.startswith('REJ '):
            hist['accept_reject']['rejected'] += 1
            hist['error_kinds'][o[4:]] += 1
            continue
        if not o.startswith('ACC '):
            # HANG / PANIC of the harness goroutine
            hist['accept_reject']['abnormal'] += 1
            failures.append({'index': i, 'hex': b.hex(), 'text': pc.show(b), 'tag': tag, 'check': 'harness', 'expected': 'round-trip checks complete',
                             'observed': o[:300], 'classes': []})
            continue
        d = json.loads(o[4:])
        hist['accept_reject']['accepted'] += 1
        distinct.add(b)
        for k in d.get('kinds', []):
            hist['node_kinds'][k] += 1
        for k in d.get('trip', []):
            hist['operator_triples'][k] += 1
        for k in d.get('chars', []):
            hist['code_point_classes'][k] += 1
        hist['queries_compared'] += d.get('nq', 0)
        fl = d.get('fail') or []
        if fl:
            for f in fl:
                hist['failed_checks'][f['check'].split(':doc=')[0]] += 1
            failures.append({'index': i, 'hex': b.hex(), 'text': pc.show(b), 'tag': tag, 'check': fl[0]['check'], 'expected': fl[0]['exp'], 'observed': fl[0]['obs'],
                             'all': fl, 'classes': d.get('cls', []), 'spec': {'printed': bytes.fromhex(d['s']).decode('utf-8', 'replace')}})
        elif len(samples) < 5 and 6 < len(b) < 70 and i % 997 == 3:
            samples.append({'leg': 'search', 'input': pc.show(b), 'String()': bytes.fromhex(d['s']).decode('utf-8', 'replace'), 'queries_compared': d.get('nq', 0),
                            'result': 'all round trips equal'})
    for f in failures[:2]:
        samples.append({'leg': 'search', 'input': f['text'], 'failed': f['check'], 'expected': f['expected'][:300], 'observed': f['observed'][:300], 'classes': f['classes']})
    hist = {k: (dict(v.most_common(400)) if isinstance(v, collections.Counter) else v) for k, v in hist.items()}
    hist['operator_triples_distinct'] = len(hist['operator_triples'])
    return {'evaluations': len(inputs), 'distinct_nontrivial': len(distinct), 'failures': failures, 'hist': hist, 'samples': samples}


def run(prop='C02', tier='quick', seed=1, replay=None):
    return pc.run_check(prop, tier, seed, replay, dict(search=search, tie_size=TIE, rule=RULE, assumptions=ASSUME, cannot_see=CANNOT))
