"""bin/check C03: every permitted spelling of a path parses to the tree the grammar assigns it.

Search leg: tools/parsevec/gen_search.py builds ABSTRACT paths, computes the tree the documented
grammar assigns them (literals by mathematical / Unicode value, precedence and associativity, sign
folding, IsPredicate from the top-level production) and renders each in its canonical spelling and
in random alternative spellings (white space / comments, keyword case, bare / quoted / escaped
keys, every escape form, number forms, != / <>, redundant parentheses).  The real path.Parse must
return exactly that tree for every spelling.  Token-independence probes put every token spelling
in front of every continuation (end of input, white space, comment, each delimiter, another token).
Keywords spelled with U+212A / U+0130 must not act as keywords (known finding, classified)."""
import collections
import parsecheck as pc

SIZES = {'quick': dict(n_trees=3000, n_alt=3), 'thorough': dict(n_trees=60000, n_alt=4)}
TIE = {'quick': 4000, 'thorough': 100000}
KWU = 'C03-unicode-keyword-lowercase'

RULE = ('search inputs: (abstract path, spelling) pairs - random abstract trees (every node kind) each rendered canonically and in n alternative spellings; '
        'systematic token probes: every key / string / number / variable / constant / keyword spelling (last character in every escape form) x every continuation '
        '(end of input, space, tab, newline, comment, each operator and delimiter, accessor, another token); every arithmetic operator pair and the '
        'predicate connectives without parentheses; Unicode look-alike keyword probes. The expected tree is computed from the abstract path by the '
        'generator, not by the implementation. All random choices from one PRNG seeded with VERIF_SEED. A case counts as distinct and non-trivial when '
        'its byte string is new in this run and it is accepted by path.Parse or is a must-reject probe; counted by this run.')
ASSUME = ['the grammar of record is the one of the README / PostgreSQL documentation as encoded in tools/parsevec/gen_search.py (dump, lit_value, BIN_PRIO); '
          'it was validated against the unmodified implementation (0 mismatches) and against the Coq model through the tie leg',
          'trees are compared through the exported accessors (Operator, Left, Right, Operand, Next, Text, Int, Float, First, Last, Subscripts, Const, Name) '
          'and reflection for RegexNode.pattern / flags']
CANNOT = ['spellings outside the generator (e.g. identifiers using XID characters beyond its sample alphabet) are only covered by the tie leg and the proofs',
          'numeric literals are compared as float64 bit patterns of the correctly rounded value computed by Python float()']


def ascii_fold(b):
    return b.decode('utf-8', 'replace').replace('\u212a', 'k').replace('\u0130', 'i').encode('utf-8')


def search(rundir, tier, seed, log, only):
    pc.gen.reseed(seed)
    pc.gen_search.used.clear()
    if only is not None:
        sp = only['spec']
        cases = [{'text': only['input'], 'exp': sp.get('expected_tree'), 'tag': 'replay', 'group': None, 'cls': None}]
    else:
        cases = pc.gen_search.c03_cases(**SIZES[tier])
        for d in pc.corpus('C03'):
            if d.get('expected_tree') or d.get('must_reject'):
                cases.append({'text': d['_bytes'], 'exp': d.get('expected_tree'), 'tag': 'corpus-file', 'group': None, 'cls': None})
    inputs = [c['text'] for c in cases]
    out = pc.run_go(rundir, '-c03', inputs, 'c03')
    if len(out) != len(inputs):
        raise RuntimeError('parsevec -c03: %d lines for %d inputs' % (len(out), len(inputs)))
    hist = {'generator': collections.Counter(c['tag'] for c in cases), 'accept_reject': collections.Counter(), 'error_kinds': collections.Counter(),
            'spelling_alternatives_used': dict(pc.gen_search.used), 'node_kinds': collections.Counter()}
    failures, samples, distinct = [], [], set()
    groups = {}
    for i, (c, o) in enumerate(zip(cases, out)):
        f = o.split(' ')
        exp = c['exp']
        obs_tree = ' '.join(f[1:-2]) if f[0] == 'OK' else None
        if f[0] == 'OK':
            hist['accept_reject']['accepted'] += 1
            distinct.add(c['text'])
            for k in set(w.strip('()[]') for w in obs_tree.split(' ') if w.startswith('(') or w.startswith('[(')):
                hist['node_kinds'][k] += 1
        elif f[0] == 'ERR':
            hist['accept_reject']['rejected'] += 1
            hist['error_kinds'][f[1]] += 1
            if exp is None:
                distinct.add(c['text'])
        else:
            hist['accept_reject']['abnormal'] += 1
        fail = None
        if f[0] not in ('OK', 'ERR'):
            fail = ('harness', 'Parse returns', o[:300])
        elif exp is None:
            if f[0] == 'OK':
                fail = ('must-reject', 'a syntax error (not a documented spelling)', 'accepted as ' + obs_tree)
        elif f[0] == 'ERR':
            fail = ('tree', exp, 'rejected: ' + pc.unhex_field(f[2]).decode('utf-8', 'replace'))
        elif obs_tree != exp:
            fail = ('tree', exp, obs_tree)
        elif f[-1] != ('@@' if ' pred ' in exp[:22] else '@?'):
            fail = ('PgIndexOperator', '@@ iff the top level is a predicate', f[-1])
        if c['group'] is not None and c['tag'].startswith('tree:') and obs_tree is not None:
            g = groups.setdefault(c['group'], (obs_tree, i))
            if fail is None and g[0] != obs_tree:
                fail = ('spelling-independence', 'the tree of the other spelling %r: %s' % (pc.show(cases[g[1]]['text']), g[0]), obs_tree)
        if fail:
            failures.append({'index': i, 'hex': c['text'].hex(), 'text': pc.show(c['text']), 'tag': c['tag'], 'check': fail[0], 'expected': fail[1], 'observed': fail[2],
                             'classes': [], 'spec': {'expected_tree': exp, 'must_reject': exp is None}})
        elif len(samples) < 6 and i % 1499 == 7:
            samples.append({'leg': 'search', 'generator': c['tag'], 'input': pc.show(c['text']), 'expected_tree': exp, 'observed': o[:500]})
    # class predicate of the listed finding: the input contains U+212A / U+0130 and is treated exactly like its ASCII folding
    cand = [f for f in failures if ('\u212a' in bytes.fromhex(f['hex']).decode('utf-8', 'replace') or '\u0130' in bytes.fromhex(f['hex']).decode('utf-8', 'replace'))]
    if cand:
        folded = pc.run_go(rundir, '-c03', [ascii_fold(bytes.fromhex(f['hex'])) for f in cand], 'c03_fold')
        for f, fo in zip(cand, folded):
            o = out[f['index']].split(' ')
            ff = fo.split(' ')
            if o[0] == 'OK' and ff[0] == 'OK' and o[1:-2] == ff[1:-2]:
                f['classes'] = [KWU]
    for f in failures[:2]:
        samples.append({'leg': 'search', 'input': f['text'], 'failed': f['check'], 'expected': f['expected'][:300], 'observed': f['observed'][:300], 'classes': f['classes']})
    hist = {k: (dict(v.most_common(300)) if isinstance(v, collections.Counter) else v) for k, v in hist.items()}
    hist['spelling_groups'] = len(groups)
    return {'evaluations': len(inputs), 'distinct_nontrivial': len(distinct), 'failures': failures, 'hist': hist, 'samples': samples}


def run(prop='C03', tier='quick', seed=1, replay=None):
    return pc.run_check(prop, tier, seed, replay, dict(search=search, tie_size=TIE, rule=RULE, assumptions=ASSUME, cannot_see=CANNOT))
