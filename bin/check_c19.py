"""check_c19 -- property C19: a parsed Path is immutable, concurrency-safe and deterministic.

    run(prop, tier, seed, replay) -> int        (called by bin/check; cwd may be anything)

Three parts (DESIGN: what a Coq model can say about concurrency is limited, so the property is
decided by a proof about the architecture, a checked tie of its hypothesis to the code, and a
supporting race-detector run):

  E  effect inventory   tools/effects is rebuilt and run on the repository's CURRENT working
                        tree (SSA + CHA/VTA call graph): every store, global read, sync use and
                        nondeterminism source of every function reachable from the entry points
                        becomes one line of coq/gen/Effects.v.
  P  proof              gen/Effects.v, model/Concurrency.v, proofs/ConcurrencyProofs.v and
                        props/C19.v are compiled with coqc (in a staging copy under
                        build/c19/coq, byte-identical to the sources, so that a concurrent
                        `make` in coq/ is neither needed nor disturbed); Print Assumptions
                        output must be "Closed under the global context" for every theorem;
                        sources are searched for Admitted/admit/Axiom/Parameter/Conjecture.
                        The obligation `effects_allowed : forallb allowed Effects.effects = true`
                        is what ties "steps read shared state and write only private state" to
                        the code.
  R  race run           harness-race is built with `go build -race` against the repository and
                        run (N goroutines x M calls on shared *Path, documents and variables,
                        each result compared with the call run alone; histories repeated and
                        reordered; inputs deep-compared before/after).

Verdict: exit 0 iff E, P and R are all good.  Otherwise exactly one line
    VIOLATION property=C19 replay=<file>[ no-failing-input-found]
where the suffix is present when only an obligation broke and the race run found nothing.
Always rewrites evidence/C19.json.

The repository examined is $VERIF_REPO (default /repo).  With a scratch copy the generated
table is written to the staging directory only, never into coq/gen."""
import hashlib
import json
import os
import re
import shutil
import subprocess
import sys
import time

ROOT = os.path.dirname(os.path.dirname(os.path.abspath(__file__)))
STAGE = os.path.join(ROOT, 'build', 'c19')
ENV = dict(os.environ, GOFLAGS='-mod=mod', GOPROXY='off', GOSUMDB='off', GOTOOLCHAIN='local')
COQ_FILES = ['gen/Effects.v', 'model/Concurrency.v', 'proofs/ConcurrencyProofs.v', 'props/C19.v']
FORBIDDEN = re.compile(r'\b(Admitted|admit|Axiom|Axioms|Parameter|Parameters|Conjecture|Conjectures|Hypothesis|Hypotheses)\b'
                       r'|Unset\s+Guard|bypass_check|type-in-type|impredicative-set|Admit\s+Obligations')
REQUIRED_THEOREMS = ['C19_interleaving_irrelevant', 'C19_interleaving_irrelevant_complete', 'C19_history_independent',
                     'C19_shared_write_breaks_interleaving', 'C19_shared_write_breaks_history',
                     'C19_private_writes_read_only', 'C19_allowed_store_private', 'C19_allowed_rejects_violations',
                     'effects_allowed', 'effects_nontrivial', 'time_now_pinned', 'sync_only_ctx_done']
TIERS = {'quick': dict(n=8, m=200, hist=40, timeout=900), 'thorough': dict(n=32, m=12000, hist=1200, timeout=7200)}

CANNOT_EXHIBIT = [
    'actual goroutine interleavings below the granularity of a model step, and weak-memory (Go memory model) behaviours: '
    'the machine interleaves atomic steps under sequential consistency; data races are looked for by the race detector run only',
    'the internal state of the standard library: package regexp keeps per-Regexp machine pools (sync.Pool) and a lazily built '
    'one-pass/backtrack program; the table stops at the module boundary and trusts regexp.MustCompile/MatchString, strconv, fmt, time to be '
    'safe for concurrent use as documented',
    'time.Now(): (*types.Time).ToTimeTZ takes today\'s date, so a Time -> TimeTZ cast under WithTZ in a zone with DST depends on the day '
    'the query runs; pinned as the only time.Now in the table (Example time_now_pinned), not modelled',
    'addresses: .keyvalue() ids are computed from reflect.ValueOf(obj).Pointer() differences (exec.addrOf), so they differ between '
    'runs and between copies of a document; the race run masks them',
    'map iteration order: items of .* / .** over objects are compared as multisets',
    'mutators: (*Path).Scan / UnmarshalText / UnmarshalBinary overwrite their receiver (classified parse-time); calling them on a *Path '
    'that other goroutines are querying is outside the property and is not exercised',
    'writes performed inside standard-library callees on memory passed to them (none of the module\'s calls pass shared memory to a '
    'mutating library function today: slices.Sort is applied to a fresh slice; such calls are listed as stores when they appear)',
]


def sh(cmd, cwd=None, timeout=None, env=None):
    try:
        r = subprocess.run(cmd, cwd=cwd, env=env or ENV, capture_output=True, text=True, timeout=timeout, errors='replace')
        return r.returncode, r.stdout, r.stderr
    except subprocess.TimeoutExpired as e:
        return 124, (e.stdout or b'').decode('utf-8', 'replace') if isinstance(e.stdout, bytes) else (e.stdout or ''), 'TIMEOUT after %ss' % timeout


def strip_coq(src):
    """remove comments (nested) and string literals from Coq source"""
    out = []
    i, n, depth = 0, len(src), 0
    while i < n:
        if src.startswith('(*', i) and not (depth == 0 and False):
            depth += 1
            i += 2
            continue
        if depth > 0:
            if src.startswith('*)', i):
                depth -= 1
                i += 2
                continue
            if src[i] == '"':            # strings are lexed inside comments too
                j = i + 1
                while j < n:
                    if src[j] == '"':
                        if j + 1 < n and src[j + 1] == '"':
                            j += 2
                            continue
                        break
                    j += 1
                i = j + 1
                continue
            i += 1
            continue
        if src[i] == '"':
            j = i + 1
            while j < n:
                if src[j] == '"':
                    if j + 1 < n and src[j + 1] == '"':
                        j += 2
                        continue
                    break
                j += 1
            out.append('""')
            i = j + 1
            continue
        out.append(src[i])
        i += 1
    return ''.join(out)


def write_replay(kind, payload):
    os.makedirs(os.path.join(ROOT, 'replays'), exist_ok=True)
    blob = json.dumps(payload, sort_keys=True)
    h = hashlib.sha1(blob.encode()).hexdigest()[:10]
    path = os.path.join(ROOT, 'replays', 'C19-%s-%s.json' % (kind, h))
    with open(path, 'w') as f:
        json.dump(payload, f, indent=1, sort_keys=True)
    return path


# ---------------------------------------------------------------------------
# E: effect inventory
# ---------------------------------------------------------------------------

def effects_leg(repo, log):
    res = {'ok': True, 'problems': [], 'summary': {}, 'lines': [], 'functions': 0}
    t0 = time.time()
    tool = os.path.join(STAGE, 'effects')
    rc, out, err = sh(['go', 'build', '-o', tool, '.'], cwd=os.path.join(ROOT, 'tools', 'effects'), timeout=600)
    log.append('go build tools/effects: rc=%d %.1fs' % (rc, time.time() - t0))
    if rc != 0:
        res['ok'] = False
        res['problems'].append('tools/effects does not build: ' + (out + err)[-800:])
        return res
    os.makedirs(os.path.join(STAGE, 'coq', 'gen'), exist_ok=True)
    staged = os.path.join(STAGE, 'coq', 'gen', 'Effects.v')
    txt = os.path.join(STAGE, 'effects.txt')
    for p in (staged, txt):
        if os.path.exists(p):
            os.remove(p)
    t1 = time.time()
    rc, out, err = sh([tool, '-repo', repo, '-out', staged, '-txt', txt], cwd=repo, timeout=900)
    log.append('effects -repo %s: rc=%d %.1fs' % (repo, rc, time.time() - t1))
    if rc != 0 or not os.path.exists(staged):
        res['ok'] = False
        res['problems'].append('effect translator failed on %s (packages must load and every SSA shape must be understood): %s' % (repo, (out + err)[-1200:]))
        return res
    m = re.search(r'functions=(\d+)', out)
    res['functions'] = int(m.group(1)) if m else 0
    for l in out.splitlines():
        m = re.match(r'^\s+(\S+)\s+(\d+)$', l)
        if m:
            res['summary'][m.group(1)] = int(m.group(2))
    with open(txt) as f:
        res['lines'] = [l.rstrip('\n').split('\t') for l in f if l.strip()]
    # the table in the tree is the table of the real repository only
    if os.path.realpath(repo) == os.path.realpath('/repo'):
        tree = os.path.join(ROOT, 'coq', 'gen', 'Effects.v')
        with open(staged) as f:
            new = f.read()
        old = None
        if os.path.exists(tree):
            with open(tree) as f:
                old = f.read()
        if old != new:
            tmp = tree + '.tmp%d' % os.getpid()
            with open(tmp, 'w') as f:
                f.write(new)
            os.replace(tmp, tree)
            log.append('coq/gen/Effects.v updated')
    else:
        log.append('scratch repository %s: coq/gen/Effects.v in the tree left alone' % repo)
    return res


# ---------------------------------------------------------------------------
# P: proof
# ---------------------------------------------------------------------------

def proof_leg(E, log):
    res = {'ok': True, 'problems': [], 'theorems': [], 'obligations': 0, 'discharged': 0, 'closed': 0, 'axioms': [],
           'failed_obligation': None, 'offending_effects': [], 'checker_cmd': ''}
    coq = os.path.join(ROOT, 'coq')
    stage = os.path.join(STAGE, 'coq')
    res['checker_cmd'] = ('build/c19/effects -repo $VERIF_REPO -out coq/gen/Effects.v && '
                          'for f in %s; do coqc -Q coq SJ coq/$f; done   '
                          '# Coq 8.16.1, full .vo, run on a byte-identical staging copy under build/c19/coq; Print Assumptions audited' % ' '.join(COQ_FILES))
    # stage the hand-written sources
    for rel in COQ_FILES[1:]:
        src = os.path.join(coq, rel)
        dst = os.path.join(stage, rel)
        os.makedirs(os.path.dirname(dst), exist_ok=True)
        if not os.path.exists(src):
            res['ok'] = False
            res['problems'].append('missing ' + rel)
            return res
        shutil.copyfile(src, dst)
    for rel in COQ_FILES:
        base = os.path.join(stage, rel)[:-2]
        for ext in ('.vo', '.vok', '.vos', '.glob'):
            if os.path.exists(base + ext):
                os.remove(base + ext)
    # forbidden constructs and shape of the statement file
    for rel in COQ_FILES:
        with open(os.path.join(stage, rel), errors='replace') as f:
            code = strip_coq(f.read())
        m = FORBIDDEN.search(code)
        if m:
            res['ok'] = False
            res['problems'].append('forbidden construct %r in %s' % (m.group(0), rel))
    with open(os.path.join(stage, 'props', 'C19.v')) as f:
        pcode = strip_coq(f.read())
    thms = re.findall(r'^\s*(?:Theorem|Lemma|Corollary|Example)\s+([A-Za-z0-9_\']+)', pcode, flags=re.M)
    res['theorems'] = thms
    res['obligations'] = len(thms)
    printed = re.findall(r'Print\s+Assumptions\s+([A-Za-z0-9_\']+)\s*\.', pcode)
    for t in thms:
        if t not in printed:
            res['ok'] = False
            res['problems'].append('props/C19.v: no Print Assumptions for %s' % t)
    for t in REQUIRED_THEOREMS:
        if t not in thms:
            res['ok'] = False
            res['problems'].append('props/C19.v: required statement %s is missing' % t)
    # only Require/Import, statements, `Proof. ... Qed.` and Print Assumptions may appear
    leftovers = re.sub(r'(?:Theorem|Example)\s+[A-Za-z0-9_\']+\s*:.*?\bProof\.\s*(?:exact\s+[A-Za-z0-9_.\']+\.|vm_compute\.\s*(?:reflexivity\.|split;\s*reflexivity\.))\s*Qed\.', ' ', pcode, flags=re.S)
    leftovers = re.sub(r'Print\s+Assumptions\s+[A-Za-z0-9_\']+\s*\.', ' ', leftovers)
    leftovers = re.sub(r'(?:Require\s+Import|Import)\s+[A-Za-z0-9_.\s]+\.', ' ', leftovers)
    if leftovers.strip():
        res['ok'] = False
        res['problems'].append('props/C19.v contains something other than statements with `Proof. exact <lemma>. Qed.` / computed Examples: %r' % leftovers.strip()[:200])
    # compile
    t0 = time.time()
    last_out = ''
    for rel in COQ_FILES:
        rc, out, err = sh(['coqc', '-Q', stage, 'SJ', os.path.join(stage, rel)], cwd=stage, timeout=1800)
        last_out = out + err
        if rc != 0:
            res['ok'] = False
            m = re.search(r'File "[^"]+", line (\d+), characters [^\n]*\n(Error:?[^\n]*(?:\n[^\n]*){0,8})', last_out)
            name = None
            if m and rel == 'props/C19.v':
                line = int(m.group(1))
                with open(os.path.join(stage, rel)) as f:
                    src_lines = f.read().split('\n')
                for k in range(min(line, len(src_lines)) - 1, -1, -1):
                    mm = re.match(r'^\s*(?:Theorem|Example)\s+([A-Za-z0-9_\']+)', src_lines[k])
                    if mm:
                        name = mm.group(1)
                        break
            res['failed_obligation'] = name or ('compilation of ' + rel)
            res['problems'].append('%s does not compile (obligation %s): %s' % (rel, name, (m.group(2) if m else last_out[-600:]).strip()[:700]))
            break
    log.append('coqc x%d: %.1fs ok=%s' % (len(COQ_FILES), time.time() - t0, res['ok']))
    closed = len(re.findall(r'Closed under the global context', last_out))
    res['closed'] = closed
    axioms = set()
    for blk in re.findall(r'Axioms:\n((?:[^\n]*\n)*?)(?=(?:Closed under|Axioms:|\Z))', last_out + '\n'):
        for l in blk.splitlines():
            m = re.match(r'^([A-Za-z_][\w.\']*)\s*:', l)
            if m:
                axioms.add(m.group(1))
    res['axioms'] = sorted(axioms)
    if axioms:
        res['ok'] = False
        res['problems'].append('Print Assumptions is not closed under the global context: %s' % sorted(axioms))
    if res['failed_obligation'] is None and closed != len(thms):
        res['ok'] = False
        res['problems'].append('%d statements but %d "Closed under the global context"' % (len(thms), closed))
    res['discharged'] = closed if not axioms else 0
    # which effects are not allowed?  ask Coq (needs only gen/Effects.vo and model/Concurrency.vo)
    if os.path.exists(os.path.join(stage, 'gen', 'Effects.vo')) and os.path.exists(os.path.join(stage, 'model', 'Concurrency.vo')):
        q = os.path.join(stage, 'Offending.v')
        with open(q, 'w') as f:
            f.write('Require Import Coq.Lists.List Coq.Strings.String Coq.Bool.Bool.\n'
                    'Require Import SJ.model.Concurrency SJ.gen.Effects.\n'
                    'Eval vm_compute in (map fst (filter (fun ie => negb (allowed (snd ie))) '
                    '(combine (seq 0 (List.length Effects.effects)) Effects.effects))).\n')
        rc, out, err = sh(['coqc', '-Q', stage, 'SJ', q], cwd=stage, timeout=600)
        m = re.search(r'=\s*(.*?)\s*:\s*list nat', out, flags=re.S)
        if rc == 0 and m is not None:
            idx = [int(x) for x in re.findall(r'\d+', m.group(1))]
            for i in idx:
                if i < len(E['lines']):
                    fn, kind, cls, detail = (E['lines'][i] + [''] * 5)[:4]
                    pos = (E['lines'][i] + [''] * 5)[4]
                    res['offending_effects'].append({'function': fn, 'kind': kind, 'class': cls, 'detail': detail, 'at': pos})
            if idx and res['ok']:
                res['ok'] = False
                res['problems'].append('effects not allowed although props/C19.v compiled')
        elif rc != 0:
            log.append('Offending.v failed: ' + (out + err)[-300:])
    return res


# ---------------------------------------------------------------------------
# R: race run
# ---------------------------------------------------------------------------

def race_leg(repo, tier, seed, replay_call, log):
    res = {'ok': True, 'ran': False, 'problems': [], 'summary': None, 'race_reports': 0, 'first_race': None,
           'mismatches': [], 'rc': None, 'cmd': ''}
    src = os.path.join(ROOT, 'harness-race')
    dst = os.path.join(STAGE, 'race')
    os.makedirs(dst, exist_ok=True)
    shutil.copyfile(os.path.join(src, 'main.go'), os.path.join(dst, 'main.go'))
    with open(os.path.join(src, 'go.mod')) as f:
        gomod = f.read()
    gomod = re.sub(r'replace github.com/theory/sqljson => \S+', 'replace github.com/theory/sqljson => ' + repo, gomod)
    with open(os.path.join(dst, 'go.mod'), 'w') as f:
        f.write(gomod)
    try:
        shutil.copyfile(os.path.join(repo, 'go.sum'), os.path.join(dst, 'go.sum'))
    except OSError:
        pass
    t0 = time.time()
    binp = os.path.join(STAGE, 'sjrace')
    rc, out, err = sh(['go', 'build', '-race', '-o', binp, '.'], cwd=dst, timeout=900)
    log.append('go build -race harness-race: rc=%d %.1fs' % (rc, time.time() - t0))
    if rc != 0:
        res['ok'] = False
        res['problems'].append('harness-race does not build against %s: %s' % (repo, (out + err)[-1000:]))
        return res
    cfg = TIERS[tier]
    sumfile = os.path.join(STAGE, 'race_summary.json')
    if os.path.exists(sumfile):
        os.remove(sumfile)
    if replay_call is not None:
        rp = os.path.join(STAGE, 'replay_call.json')
        with open(rp, 'w') as f:
            json.dump({'call': replay_call}, f)
        cmd = [binp, '-replay', rp]
    else:
        cmd = [binp, '-n', str(cfg['n']), '-m', str(cfg['m']), '-hist', str(cfg['hist']), '-seed', str(seed), '-out', sumfile]
    res['cmd'] = ' '.join(cmd)
    t1 = time.time()
    rc, out, err = sh(cmd, cwd=dst, timeout=cfg['timeout'], env=dict(ENV, GORACE='halt_on_error=0'))
    res['rc'] = rc
    res['ran'] = True
    log.append('sjrace: rc=%d %.1fs' % (rc, time.time() - t1))
    if os.path.exists(sumfile):
        try:
            with open(sumfile) as f:
                res['summary'] = json.load(f)
        except ValueError:
            pass
    n_races = len(re.findall(r'WARNING: DATA RACE', err))
    res['race_reports'] = n_races
    if n_races:
        blocks = re.findall(r'={18}\n(WARNING: DATA RACE.*?)\n={18}', err, flags=re.S)
        first = blocks[0] if blocks else err[:6000]
        res['first_race'] = first[:8000]
        res['ok'] = False
        res['problems'].append('the race detector reported %d data race(s)' % n_races)
    if res['summary'] and res['summary'].get('mismatches'):
        res['ok'] = False
        res['mismatches'] = res['summary'].get('first_mismatches') or []
        res['problems'].append('%d calls returned something else than when run alone' % res['summary']['mismatches'])
    if replay_call is not None and rc == 1:
        res['ok'] = False
        res['mismatches'] = [{'phase': 'replay', 'call': replay_call, 'note': out[-1500:]}]
        res['problems'].append('the replayed call differs from its isolated result')
    if rc not in (0, 1, 66) or (rc == 0 and replay_call is None and not res['summary']):
        res['ok'] = False
        res['crashed'] = True
        res['problems'].append('sjrace failed (rc=%s): %s' % (rc, (err or out)[-1500:]))
    elif rc != 0 and res['ok']:
        res['ok'] = False
        res['problems'].append('sjrace exited %d: %s' % (rc, (err or out)[-800:]))
    return res


# ---------------------------------------------------------------------------
# evidence
# ---------------------------------------------------------------------------

def validate_evidence(ev):
    """the parts of /root/.vp/EVIDENCE.schema.json that apply (no jsonschema module offline)"""
    for k in ('property_id', 'tier', 'seed', 'level', 'coverage', 'wall_s'):
        assert k in ev, k
    assert ev['tier'] in ('quick', 'thorough') and isinstance(ev['seed'], int) and isinstance(ev['wall_s'], (int, float))
    c = ev['coverage']
    assert isinstance(c.get('samples', []), list)
    for k in ('evaluations', 'distinct_nontrivial', 'obligations', 'discharged'):
        if k in c:
            assert isinstance(c[k], int) and c[k] >= 0, k
    if all(k in c for k in ('obligations', 'discharged', 'checker_cmd', 'trusted_base')):
        assert c['obligations'] >= 1 and c['discharged'] >= 1 and c['checker_cmd'].strip()
        assert all(isinstance(x, str) for x in c['trusted_base'])
    else:
        assert c.get('evaluations', 0) >= 1 and c.get('distinct_nontrivial', 0) >= 2
    return True


def write_evidence(tier, seed, repo, E, P, R, rc, n_viol, t_start, log):
    s = (R.get('summary') or {}) if R else {}
    classes = {}
    for l in E.get('lines', []):
        if len(l) >= 3:
            k = l[1] + '/' + l[2]
            classes[k] = classes.get(k, 0) + 1
    cov = {
        'obligations': P.get('obligations', 0),
        'discharged': P.get('discharged', 0),
        'checker_cmd': P.get('checker_cmd', '') or 'bin/check C19',
        'trusted_base': [
            'Coq 8.16.1 kernel incl. vm_compute (no native_compute); standard library only; Print Assumptions: %s'
            % (', '.join(P.get('axioms', [])) or 'closed under the global context for all %d statements' % P.get('closed', 0)),
            'tools/effects (hand-written translator): go/packages + go/ssa (x/tools v0.29.0) SSA construction, CHA call graph refined by VTA '
            '(sound modulo reflection and unsafe), and the classification of store targets by root (global / local alloc / parameter, '
            'call result or loaded pointer by static type; field-ownership inference for per-call structs); the claim "the behaviour of a '
            'Go function is a step made of exactly the listed effects" is this translation and is not proved',
            'the effect table stops at the module boundary: callees in the Go standard library (regexp, fmt, strconv, time, slices, maps, '
            'strings) are trusted to be safe for concurrent use on distinct or read-only arguments',
            'the abstract machine (model/Concurrency.v) is written by hand: shared store read-only by hypothesis, per-call private state, '
            'atomic steps, sequentially consistent interleaving; it is not derived from the source',
            'harness-race (Go, -race): pool of paths/documents/variables, canonicalisation of results, comparison rules (multisets for '
            'paths over object members; .keyvalue() ids masked); the Go race detector (happens-before, reports only races that occur)',
        ],
        'theorems': P.get('theorems', []),
        'proof_problems': P.get('problems', []),
        'failed_obligation': P.get('failed_obligation'),
        'offending_effects': P.get('offending_effects', [])[:40],
        'effects_total': len(E.get('lines', [])),
        'effects_by_kind_and_class': classes,
        'reachable_module_functions': E.get('functions', 0),
        'effects_translator_problems': E.get('problems', []),
        'evaluations': int(s.get('calls', 0)),
        'distinct_nontrivial': int(s.get('distinct_nontrivial', 0)),
        'rule': 'harness-race enumerates every (path of the pool x shared document x entry point in {Query, First, Exists, Match, ExistsOrMatch} x '
                'option set {variables, WithSilent, WithTZ + zone}) call and computes it ALONE on a freshly parsed *Path and private deep copies of '
                'the inputs; a call counts as distinct and non-trivial when its isolated outcome is an error, a panic, a non-empty item list or a '
                'value other than null/false (counted by the harness on this run). evaluations = isolated + concurrent (N goroutines x M calls on '
                'shared *Path/documents/variables, plus String/MarshalText/Parse/UnmarshalText concurrently) + sequential histories (random, '
                'reversed, shuffled, repeated) on one *Path, each compared with the isolated outcome; PRNGs seeded with VERIF_SEED',
        'samples': s.get('samples', []) or [{'obligation': 'effects_allowed', 'statement': 'forallb allowed Effects.effects = true',
                                              'effects': len(E.get('lines', []))}],
        'race_run': {k: s.get(k) for k in ('goroutines', 'calls_per_goroutine', 'paths', 'docs', 'varsets', 'isolated_calls', 'concurrent_calls',
                                           'concurrent_string_calls', 'concurrent_parses', 'history_calls', 'mismatches', 'inputs_mutated',
                                           'unstable_alone', 'skipped_unparsable_paths', 'wall_s')} if s else None,
        'race_detector_reports': R.get('race_reports', 0) if R else None,
        'race_run_problems': R.get('problems', []) if R else ['not run'],
        'race_cmd': R.get('cmd') if R else None,
        'repository': repo,
        'cannot_exhibit': CANNOT_EXHIBIT,
        'explanation': 'proof about an abstract machine (interleaving_irrelevant, history_independent, with a counter-machine showing the '
                       'no-shared-write hypothesis is necessary) + a regenerated effect table tying that hypothesis to the code '
                       '(effects_allowed) + a race-detector run as supporting evidence',
    }
    if cov['discharged'] < 1 or cov['obligations'] < 1:
        # nothing was discharged: do not claim the proof keys (the schema wants >= 1); keep the counts under other names
        cov['obligations_stated'] = cov.pop('obligations')
        cov['discharged_count'] = cov.pop('discharged')
        cov['evaluations'] = max(cov['evaluations'], 1)
        cov['distinct_nontrivial'] = max(cov['distinct_nontrivial'], 0)
    ev = {
        'property_id': 'C19', 'tier': tier, 'seed': int(seed), 'level': 'proof',
        'coverage': cov,
        'assumptions': [
            'goroutine interleavings and the Go memory model are outside the executable model; see coverage.cannot_exhibit',
            'the documents and variable maps are not mutated by the caller during a query',
            'Scan / UnmarshalText / UnmarshalBinary are not called on a *Path shared with running queries',
            'standard-library packages are safe for concurrent use as documented',
        ],
        'wall_s': round(time.time() - t_start, 2),
        'violations': n_viol,
        'log': log,
    }
    try:
        validate_evidence(ev)
    except AssertionError as e:
        ev['schema_self_check'] = 'FAILED: %r' % (e,)
    os.makedirs(os.path.join(ROOT, 'evidence'), exist_ok=True)
    tmp = os.path.join(ROOT, 'evidence', 'C19.json.tmp%d' % os.getpid())
    with open(tmp, 'w') as f:
        json.dump(ev, f, indent=1)
    os.replace(tmp, os.path.join(ROOT, 'evidence', 'C19.json'))


# ---------------------------------------------------------------------------
# entry point
# ---------------------------------------------------------------------------

def run(prop='C19', tier='quick', seed=1, replay=None):
    t_start = time.time()
    if tier not in TIERS:
        tier = 'quick'
    try:
        seed = int(os.environ.get('VERIF_SEED', seed) or seed)
    except ValueError:
        seed = 1
    repo = os.path.abspath(os.environ.get('VERIF_REPO', '/repo'))
    os.makedirs(STAGE, exist_ok=True)
    log = []
    # one run at a time in the staging directory
    import fcntl
    lock = open(os.path.join(STAGE, '.lock'), 'w')
    fcntl.flock(lock, fcntl.LOCK_EX)
    try:
        return _run(tier, seed, replay, repo, t_start, log)
    finally:
        fcntl.flock(lock, fcntl.LOCK_UN)
        lock.close()


def _run(tier, seed, replay, repo, t_start, log):

    replay_call = None
    if replay:
        try:
            with open(replay) as f:
                rp = json.load(f)
            inp = rp.get('input') or {}
            replay_call = inp.get('call') if isinstance(inp, dict) else None
            if isinstance(inp, dict) and 'seed' in inp and replay_call is None:
                seed = int(inp['seed'])
        except (OSError, ValueError) as e:
            log.append('replay file unreadable: %r' % (e,))

    E = effects_leg(repo, log)
    P = proof_leg(E, log) if E['ok'] else {'ok': False, 'problems': ['effect table not regenerated'], 'theorems': [], 'obligations': 0,
                                           'discharged': 0, 'closed': 0, 'axioms': [], 'failed_obligation': 'regeneration of gen/Effects.v',
                                           'offending_effects': [], 'checker_cmd': ''}
    R = race_leg(repo, tier, seed, replay_call, log)

    rc = 0
    replay_path = None
    no_input = False
    cfg = TIERS[tier]
    failing_evidence = R['ran'] and (R['race_reports'] > 0 or R['mismatches'])
    if failing_evidence:
        first_mm = R['mismatches'][0] if R['mismatches'] else None
        kind = 'race' if R['race_reports'] else ('impure-input' if first_mm and first_mm.get('phase') == 'input-mutated' else 'mismatch')
        payload = {
            'property': 'C19', 'kind': 'failing-input', 'evidence': kind, 'tier': tier, 'seed': seed, 'repository': repo,
            'input': {'n': cfg['n'], 'm': cfg['m'], 'hist': cfg['hist'], 'seed': seed,
                      'call': (first_mm or {}).get('call'),
                      'path': (first_mm or {}).get('path_src'), 'doc': (first_mm or {}).get('doc'), 'vars': (first_mm or {}).get('vars')},
            'race_reports': R['race_reports'],
            'race_report': R['first_race'],
            'module_frames_in_race': sorted(set(re.findall(r'github\.com/theory/sqljson/[^\s(]+(?:\([^)]*\))?[.\w]*', R['first_race'] or '')))[:20],
            'mismatching_calls': R['mismatches'][:5],
            'proof_obligations_broken': P['problems'],
            'offending_effects': P.get('offending_effects', [])[:40],
            'how_to_replay': 'bin/check C19 --replay <this file>   (reruns %s; a data race is a property of the run, rerun with the same -n -m -seed)' % R['cmd'],
        }
        replay_path = write_replay('failing-input', payload)
        rc = 1
    elif not (E['ok'] and P['ok'] and R['ok']):
        what = []
        if not E['ok']:
            what.append({'obligation': 'regeneration of coq/gen/Effects.v from the current tree', 'problems': E['problems']})
        if not P['ok']:
            what.append({'obligation': P.get('failed_obligation') or 'props/C19.v', 'problems': P['problems'],
                         'offending_effects': P.get('offending_effects', [])})
        if not R['ok']:
            what.append({'obligation': 'supporting race run', 'problems': R['problems']})
        payload = {
            'property': 'C19', 'kind': 'unchecked-obligation', 'tier': tier, 'seed': seed, 'repository': repo,
            'obligation': (P.get('failed_obligation') if not P['ok'] else None) or what[0]['obligation'],
            'no_longer_checks': what,
            'offending_effects': P.get('offending_effects', []),
            'race_run': {'ran': R['ran'], 'race_reports': R['race_reports'], 'mismatches': len(R['mismatches']),
                         'calls': (R.get('summary') or {}).get('calls')},
            'note': 'the property is no longer shown to hold: the effect table regenerated from the current tree contains effects that are not '
                    'compatible with "steps read shared state and write only private state" (or the Coq development / the run is broken); '
                    'the race run found no data race and no call whose result differs from its isolated result',
            'input': {'seed': seed},
        }
        replay_path = write_replay('unchecked-obligation', payload)
        rc = 1
        no_input = True

    n_viol = 0
    if rc:
        n_viol = max(1, R['race_reports'] + len(R['mismatches'])) if failing_evidence else 1
    write_evidence(tier, seed, repo, E, P, R, rc, n_viol, t_start, log)

    if rc:
        for leg, name in ((E, 'effects'), (P, 'proof'), (R, 'race-run')):
            for p in leg.get('problems', []):
                sys.stderr.write('C19 %s: %s\n' % (name, p))
        for e in P.get('offending_effects', [])[:20]:
            sys.stderr.write('C19 offending effect: %(function)s %(kind)s %(class)s %(detail)s @%(at)s\n' % e)
        if R.get('first_race'):
            sys.stderr.write(R['first_race'][:3000] + '\n')
        for mm in R.get('mismatches', [])[:3]:
            sys.stderr.write('C19 mismatch: %s\n' % json.dumps(mm)[:1500])
        print('VIOLATION property=C19 replay=%s%s' % (replay_path, ' no-failing-input-found' if no_input else ''))
    else:
        s = R.get('summary') or {}
        print('C19 ok: %d/%d obligations closed; %d effects of %d functions all allowed; race run: %s calls, 0 mismatches, 0 races (%.0fs)'
              % (P['discharged'], P['obligations'], len(E['lines']), E['functions'], s.get('calls', 'replay'), time.time() - t_start))
    sys.stdout.flush()
    return rc


if __name__ == '__main__':
    tier = os.environ.get('VERIF_TIER', 'quick')
    replay = None
    a = sys.argv[1:]
    i = 0
    while i < len(a):
        if a[i] == '--tier':
            tier = a[i + 1]
            i += 2
        elif a[i] == '--replay':
            replay = a[i + 1]
            i += 2
        else:
            i += 1
    sys.exit(run('C19', tier, int(os.environ.get('VERIF_SEED', '1') or '1'), replay))
