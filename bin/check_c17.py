"""check_c17 -- property C17: datetime methods parse, cast and compare by the time-zone rules.

    run(prop, tier, seed, replay) -> int        (called by bin/check; cwd may be anything)

P: props/C17.v (Coq, Print Assumptions audited).  T: the vectors of the families parse (P), cast (C),
compare (X, Q) and exec_datetime_method (E) produced by the real code are evaluated on the Gallina model.
S: tools/dtvec/props.go runC17 -- trichotomy, antisymmetry, transitivity, cast coherence, the
time-zone-required errors without WithTZ, most specific type, precision rounding, documented forms.
See bin/dtcheck.py."""
import os
import sys

sys.path.insert(0, os.path.dirname(os.path.abspath(__file__)))
import dtcheck  # noqa: E402


def run(prop, tier, seed, replay):
    return dtcheck.run('C17', tier, seed, replay)
