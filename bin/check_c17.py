"""check_c17 -- property C17: datetime methods parse, cast and compare by the time-zone rules.

    run(prop, tier, seed, replay) -> int        (called by bin/check; cwd may be anything)

P: props/C17.v (Coq, Print Assumptions audited).  T: the vectors of the families parse (P), cast (C),
compare (X, Q) and exec_datetime_method (E) produced by the real code are evaluated on the Gallina model.
S: tools/dtvec/props.go runC17 -- trichotomy, antisymmetry, transitivity, cast coherence, the
time-zone-required errors without WithTZ, most specific type, precision rounding, documented forms.
See bin/dtcheck.py."""
import os
import sys

sys.path.insert(0, os.path.dirname(os.path.abspath(__file__)))
import dtcheck  # noqa: E402


def run(prop, tier, seed, replay):
    import json
    import io
    import contextlib
    import checklib
    # a replay written by the executor-model leg (generic harness input) is replayed by that leg
    if replay:
        try:
            rp = json.load(open(replay))
        except Exception:
            rp = {}
        if 'executor model' in str(rp.get('leg', '')):
            return checklib.generic_check('C17', tier, seed, replay, __import__('time').time(), [])
    rc = dtcheck.run('C17', tier, seed, replay)
    if rc != 0 or replay:
        return rc
    # additional leg: datetime methods through the executor model and the trace specification
    log = []
    ties, viol, seen, totals, rpath = checklib.extra_exec_leg('C17', tier, seed, log)
    evp = os.path.join(os.path.dirname(os.path.dirname(os.path.abspath(__file__))), 'evidence', 'C17.json')
    try:
        ev = json.load(open(evp))
        ev['coverage']['executor_model_leg'] = {'families': ['dt'], 'cases': totals.get('cases', 0), 'comparisons': totals.get('comparisons', 0),
                                                 'spec_comparisons': totals.get('spec_comparisons', 0), 'model_vs_impl_disagreements': len(ties),
                                                 'spec_vs_impl_unexplained': len(viol), 'log': log}
        ev['coverage']['evaluations'] = ev['coverage'].get('evaluations', 0) + totals.get('comparisons', 0)
        if ties or viol:
            ev['violations'] = max(1, len(viol))
        json.dump(ev, open(evp, 'w'), indent=1)
    except Exception:
        pass
    if viol:
        print('VIOLATION property=C17 replay=%s' % rpath)
        return 1
    if ties:
        print('VIOLATION property=C17 replay=%s no-failing-input-found' % rpath)
        return 1
    return 0
