"""Shared machinery of bin/check (see bin/check for the contract)."""
import sys, os, json, re, subprocess, time, hashlib, glob

ROOT = os.path.dirname(os.path.dirname(os.path.abspath(__file__)))
BUILD = os.path.join(ROOT, 'build')
ENV = dict(os.environ, GOFLAGS='-mod=mod', GOPROXY='off', GOSUMDB='off', GOTOOLCHAIN='local',
           CARGO_NET_OFFLINE='true', PIP_NO_INDEX='1')

ALLOWED_AXIOMS = {
    # declared by the Coq standard library (real numbers, classical logic, extensionality)
    'ClassicalDedekindReals.sig_not_dec', 'ClassicalDedekindReals.sig_forall_dec',
    'FunctionalExtensionality.functional_extensionality_dep', 'Classical_Prop.classic',
    'Eqdep.Eq_rect_eq.eq_rect_eq', 'JMeq.JMeq_eq', 'ProofIrrelevance.proof_irrelevance',
}
FORBIDDEN = re.compile(r'\b(Admitted|admit|Axiom|Axioms|Parameter|Parameters|Conjecture|Conjectures)\b|Unset\s+Guard|bypass_check|type-in-type|impredicative-set|Admit\s+Obligations')

# ---------------------------------------------------------------------------
# per-property configuration
# ---------------------------------------------------------------------------
# families: (name, target number of cases) per tier.  spec: which SPEC lines
# (specification-vs-implementation mismatches) decide this property.
def _fam(quick, thorough):
    return {'quick': quick, 'thorough': thorough}

PROPS = {
    'C01': dict(title='Query conforms to the path semantics',
                families=_fam([('pg', 0), ('rand', 5000), ('struct', 2500), ('filter', 2500), ('sub', 2000), ('desc', 2000), ('meth', 1500), ('compose', 1500), ('ctx', 2000), ('walk', 4000), ('share', 1500), ('cmp', 3000)],
                              [('pg', 0), ('rand', 150000), ('struct', 60000), ('filter', 60000), ('sub', 50000), ('desc', 50000), ('meth', 20000), ('compose', 30000), ('kleene', 20000), ('walk', 80000), ('share', 30000)]),
                spec=lambda l: l['entry'] == 'query', tags=['C01']),
    'C05': dict(title='execution is total, pure and classified',
                families=_fam([('rand', 6000), ('meth', 2500), ('cmp', 3000), ('math', 2500), ('walk', 3000)],
                              [('rand', 200000), ('meth', 20000), ('cmp', 40000), ('math', 30000), ('struct', 30000), ('walk', 60000), ('share', 10000)]),
                spec=lambda l: False, tags=['C05']),
    'C06': dict(title='the five entry points tell one story',
                families=_fam([('pg', 0), ('rand', 6000), ('struct', 3000), ('filter', 2500), ('kleene', 2500), ('walk', 3000)],
                              [('rand', 150000), ('struct', 60000), ('filter', 60000), ('kleene', 40000), ('compose', 20000), ('walk', 60000)]),
                spec=lambda l: l['entry'] in ('first', 'exists', 'match', 'eom'), tags=['C06']),
    'C07': dict(title='lax absorbs structural mismatches, strict reports each',
                families=_fam([('struct', 12000), ('sub', 3000), ('walk', 3000), ('fsub', 800)], [('struct', 250000), ('sub', 30000), ('desc', 30000), ('walk', 60000), ('fsub', 10000)]),
                spec=lambda l: l['entry'] == 'query', tags=['C07']),
    'C08': dict(title='WithSilent suppresses exactly the suppressible errors',
                families=_fam([('pg', 0), ('rand', 6000), ('struct', 3000), ('filter', 2500), ('meth', 2000), ('ctx', 3000), ('cancel', 25), ('walk', 3000), ('kv', 1500), ('math', 1500)],
                              [('rand', 150000), ('struct', 60000), ('filter', 60000), ('meth', 20000), ('kleene', 30000), ('cancel', 300), ('walk', 60000), ('kv', 20000)]),
                # cancellation is the one error WithSilent must never suppress: the C20 relations on silent runs decide C08 too
                spec=lambda l: True, tags=['C08', 'C20']),
    'C09': dict(title='steps compose; context is left intact',
                families=_fam([('ctx', 6000), ('compose', 4000), ('group9', 2500), ('walk', 3000)], [('ctx', 0), ('compose', 60000), ('group9', 40000), ('walk', 60000)]),
                spec=lambda l: l['entry'] == 'query', tags=['C09']),
    'C10': dict(title='a filter keeps exactly the items whose condition is true',
                families=_fam([('filter', 8000), ('group10', 2500), ('ctx', 3000), ('walk', 4000)], [('filter', 200000), ('group10', 40000), ('ctx', 0), ('walk', 80000)]),
                spec=lambda l: l['entry'] == 'query', tags=['C10']),
    'C11': dict(title='Kleene connectives',
                families=_fam([('kleene', 9000), ('group11', 2000), ('ctx', 3000), ('walk', 2000)], [('kleene', 200000), ('group11', 30000), ('ctx', 0), ('walk', 40000)]),
                spec=lambda l: l['entry'] in ('query', 'match'), tags=['C11']),
    'C12': dict(title='comparisons impose one consistent order',
                families=_fam([('cmp', 40000)], [('cmp', 0)]),
                spec=lambda l: l['entry'] == 'query', tags=['C12']),
    'C13': dict(title='arithmetic is exact or fails loudly',
                families=_fam([('math', 9000), ('walk', 2000)], [('math', 120000), ('walk', 40000)]),
                spec=lambda l: True, tags=['C13']),
    'C14': dict(title='array subscripts',
                families=_fam([('sub', 12000), ('walk', 4000), ('fsub', 800)], [('sub', 0), ('walk', 80000), ('fsub', 10000)]),
                spec=lambda l: l['entry'] == 'query', tags=['C14']),
    'C15': dict(title='wildcards and recursive descent',
                families=_fam([('desc', 12000), ('share', 3000), ('walk', 2000)], [('desc', 0), ('share', 60000), ('walk', 40000)]),
                spec=lambda l: l['entry'] == 'query', tags=['C15']),
    'C16': dict(title='item methods',
                families=_fam([('meth', 9000), ('kv', 3000), ('walk', 3000)], [('meth', 0), ('kv', 60000), ('walk', 60000)]),
                spec=lambda l: l['entry'] == 'query', tags=['C16']),
    'C17': dict(title='datetime methods (executor-model leg)',
                families=_fam([('dt', 6000), ('walk', 2000)], [('dt', 0), ('walk', 30000)]),
                spec=lambda l: True, tags=['C17']),
    'C18': dict(title='datetime values (executor-model leg)',
                families=_fam([('dt', 3000)], [('dt', 40000)]),
                spec=lambda l: True, tags=['C18']),
    'C20': dict(title='cancellation',
                families=_fam([('cancel', 60)], [('cancel', 4000)]),
                spec=lambda l: False, tags=['C20']),
}

LINE_RE = re.compile(r'^(TIE|POLLS|THM|SPEC|PROP|IMPURE|SKIP|SUMMARY|STAT)\b(.*)$')


def sh(cmd, **kw):
    return subprocess.run(cmd, shell=isinstance(cmd, str), env=ENV, capture_output=True, text=True, **kw)


def parse_kv(rest):
    """parse 'id family entry k=v ... text="..."' into a dict"""
    d = {}
    m = re.search(r'\btext=("(?:[^"\\]|\\.)*")\s*$', rest)
    if m:
        d['text'] = bytes(m.group(1)[1:-1], 'latin-1').decode('unicode_escape').encode('latin-1').decode('utf-8', 'replace')
        rest = rest[:m.start()]
    # impl=... model=... spec=... are s-expressions: cut them out by keyword order
    for key in ('detail', 'spec', 'model', 'impl'):
        m = re.search(r'\b' + key + r'=(.*)$', rest)
        if m:
            d[key] = m.group(1).strip()
            rest = rest[:m.start()]
    toks = rest.split()
    pos = []
    for t in toks:
        if '=' in t:
            k, v = t.split('=', 1)
            d[k] = v
        else:
            pos.append(t)
    d['_pos'] = pos
    return d


def parse_report(path):
    lines = {'TIE': [], 'POLLS': [], 'THM': [], 'SPEC': [], 'PROP': [], 'IMPURE': [], 'SKIP': [], 'STAT': []}
    summary = {}
    with open(path, errors='replace') as f:
        for raw in f:
            m = LINE_RE.match(raw.rstrip('\n'))
            if not m:
                continue
            kind, rest = m.group(1), m.group(2)
            if kind == 'SUMMARY':
                for t in rest.split():
                    if '=' in t:
                        k, v = t.split('=', 1)
                        summary[k] = summary.get(k, 0) + int(v)
                continue
            d = parse_kv(rest)
            pos = d.pop('_pos')
            d['kind'] = kind
            if kind in ('TIE', 'POLLS', 'THM', 'SPEC'):
                d['id'], d['family'], d['entry'] = (pos + [None] * 3)[:3]
                d['silent'] = d.get('silent') == 'true'
            elif kind == 'PROP':
                d['tag'], d['id'], d['family'] = (pos + [None] * 3)[:3]
            elif kind == 'STAT':
                d['name'] = pos[0] if pos else ''
            else:
                d['id'] = pos[0] if pos else None
                d['family'] = pos[1] if len(pos) > 1 else None
            lines[kind].append(d)
    return lines, summary


def load_findings():
    p = os.path.join(ROOT, 'known_findings.json')
    with open(p) as f:
        return json.load(f)


def case_inputs(sexp_path, ids):
    """fetch the raw case lines (inputs + implementation results) for the given ids"""
    want = set(str(i) for i in ids)
    out = {}
    if not want:
        return out
    with open(sexp_path, errors='replace') as f:
        for line in f:
            m = re.match(r'^\(case (\d+) ', line)
            if m and m.group(1) in want:
                out[m.group(1)] = line.rstrip('\n')
                if len(out) == len(want):
                    break
    return out


def proof_leg(prop, log):
    """regenerate tables, rebuild Coq, audit assumptions of props/<prop>.v"""
    res = {'ok': True, 'problems': [], 'obligations': 0, 'discharged': 0, 'theorems': [], 'axioms': [], 'checker_cmd': ''}
    t0 = time.time()
    r = sh([os.path.join(ROOT, 'bin', 'gen-tables')], cwd=ROOT)
    if r.returncode != 0:
        res['ok'] = False
        res['problems'].append('table translator failed: ' + (r.stdout + r.stderr)[-400:])
        return res
    tables_changed = [l for l in r.stdout.splitlines() if l.startswith('updated')]
    coq = os.path.join(ROOT, 'coq')
    if not os.path.exists(os.path.join(coq, 'Makefile')):
        res['ok'] = False
        res['problems'].append('Coq Makefile missing: run bin/setup')
        return res
    # build what this property needs: its theorem file (and, through dependencies, the model, the specification,
    # the lemma files and the generated tables it rests on) and the files the extracted model is made from
    targets = 'props/%s.vo extract/Api.vo extract/Instance.vo proofs/PropGlue.vo' % prop
    r = sh('flock %s timeout 3000 make -j16 %s' % (os.path.join(BUILD, '.lock'), targets), cwd=coq)
    res['checker_cmd'] = 'bin/gen-tables && (cd coq && make -j16 props/%s.vo extract/Api.vo proofs/PropGlue.vo) && coqc -Q coq SJ coq/props/%s.v  # Coq 8.16.1, full .vo build of the theorem file and everything it depends on; Print Assumptions audited' % (prop, prop)
    log.append('make: rc=%d %.1fs tables_changed=%s' % (r.returncode, time.time() - t0, tables_changed))
    if r.returncode != 0:
        res['ok'] = False
        err = (r.stdout + r.stderr)
        m = re.search(r'File "([^"]+)", line (\d+)[^\n]*\n(Error:[^\n]*(?:\n[^\n]*){0,6})', err)
        res['problems'].append('Coq build failed: ' + (m.group(0) if m else err[-600:]))
        res['failed_file'] = m.group(1) if m else None
        return res
    # forbidden constructs anywhere in the development
    for path in glob.glob(os.path.join(coq, '**', '*.v'), recursive=True):
        with open(path, errors='replace') as f:
            src = f.read()
        src_nc = re.sub(r'\(\*.*?\*\)', ' ', src, flags=re.S)
        m = FORBIDDEN.search(src_nc)
        if m:
            res['ok'] = False
            res['problems'].append('forbidden construct %r in %s' % (m.group(0), os.path.relpath(path, ROOT)))
    # the property's theorem file
    pf = os.path.join(coq, 'props', prop + '.v')
    if not os.path.exists(pf):
        res['ok'] = False
        res['problems'].append('no theorem file props/%s.v' % prop)
        return res
    with open(pf) as f:
        src = f.read()
    src_nc = re.sub(r'\(\*.*?\*\)', ' ', src, flags=re.S)
    thms = re.findall(r'^\s*(?:Theorem|Lemma|Corollary|Example)\s+([A-Za-z0-9_\']+)', src_nc, flags=re.M)
    res['theorems'] = thms
    res['obligations'] = len(thms)
    r = sh(['flock', os.path.join(BUILD, '.lock'), 'timeout', '900', 'coqc', '-Q', '.', 'SJ', os.path.join('props', prop + '.v')], cwd=coq)
    out = r.stdout + r.stderr
    if r.returncode != 0:
        res['ok'] = False
        res['problems'].append('props/%s.v does not compile: %s' % (prop, out[-500:]))
        return res
    closed = len(re.findall(r'Closed under the global context', out))
    axiom_blocks = re.findall(r'Axioms:\n((?:.+\n?)+?)(?=\n\S|\Z)', out)
    axioms = set()
    for blk in re.findall(r'Axioms:\n((?:[^\n]*\n)*?)(?=(?:Closed under|Axioms:|\Z))', out + '\n'):
        for l in blk.splitlines():
            m = re.match(r'^([A-Za-z_][\w.\']*)(\s*:|\s*$)', l)
            if m:
                axioms.add(m.group(1))
    res['axioms'] = sorted(axioms)
    bad = [a for a in axioms if a not in ALLOWED_AXIOMS]
    if bad:
        res['ok'] = False
        res['problems'].append('theorems depend on axioms outside the standard library: %s' % bad)
    n_print = len(re.findall(r'Print\s+Assumptions', src_nc))
    if n_print < len(thms):
        res['ok'] = False
        res['problems'].append('%d theorems but only %d Print Assumptions in props/%s.v' % (len(thms), n_print, prop))
    # thorough tier: independent re-check of the compiled theorem file and everything it depends on
    if os.environ.get('VERIF_TIER_EFFECTIVE') == 'thorough' and res['ok']:
        t1 = time.time()
        # coqchk re-checks the theorem file and every library it depends on (1-30 min).  Its verdict is a function of
        # the compiled files: it is cached under build/ by the hash of the contents of all .vo files, so a second
        # thorough check on an unchanged development does not repeat it (a fresh restore starts with no cache).
        hh = hashlib.sha1()
        for vo in sorted(glob.glob(os.path.join(coq, '**', '*.vo'), recursive=True)):
            hh.update(os.path.relpath(vo, coq).encode())
            with open(vo, 'rb') as fvo:
                hh.update(hashlib.sha1(fvo.read()).digest())
        key = prop + ':' + hh.hexdigest()
        cache_p = os.path.join(BUILD, 'coqchk-cache.json')
        try:
            with open(cache_p) as fc:
                cache = json.load(fc)
        except Exception:
            cache = {}
        if key in cache and cache[key].get('rc') == 0:
            res['coqchk'] = dict(cache[key], cached=True)
            log.append('coqchk: cached verdict for these .vo files (rc=0, %.1fs when it ran) axioms=%s' % (cache[key].get('wall_s', 0), cache[key].get('axioms', '')[:80]))
            rc = None
        else:
            rc = sh(['flock', os.path.join(BUILD, '.lock'), 'timeout', '5400', 'coqchk', '-silent', '-o', '-Q', '.', 'SJ', 'SJ.props.' + prop], cwd=coq)
        outc = (rc.stdout + rc.stderr) if rc is not None else ''
        m = re.search(r'\* Axioms:(.*?)\n\s*\n\* Constants', outc, flags=re.S)
        if rc is not None:
            res['coqchk'] = {'rc': rc.returncode, 'wall_s': round(time.time() - t1, 1),
                             'axioms': (m.group(1).strip() if m else 'unparsed'), 'tail': outc[-600:]}
            log.append('coqchk: rc=%d %.1fs axioms=%s' % (rc.returncode, time.time() - t1, res['coqchk']['axioms'][:80]))
            if rc.returncode == 0:
                cache[key] = {k: res['coqchk'][k] for k in ('rc', 'wall_s', 'axioms')}
                try:
                    with open(cache_p, 'w') as fc:
                        json.dump(cache, fc)
                except OSError:
                    pass
        class _R:
            returncode = 0
        if rc is None:
            rc = _R()
        if rc.returncode == 124:
            # the independent re-check did not finish within its time limit: inconclusive, not a failed obligation
            # (coqc's kernel has accepted every file); recorded in the evidence
            res['coqchk']['axioms'] = 'timeout'
            log.append('coqchk: time limit reached, inconclusive')
        elif rc.returncode != 0:
            res['ok'] = False
            res['problems'].append('coqchk failed: ' + outc[-400:])
    res['discharged'] = len(thms) if res['ok'] else 0
    res['assumption_output'] = {'closed': closed, 'with_axioms': len(re.findall(r'^Axioms:', out, flags=re.M))}
    return res


HARNESS_BIN = [os.path.join(BUILD, 'sjharness')]


def build_harness(log, prop=None):
    """build the Go harness against /repo's working tree; one binary per property so that checks may run in parallel"""
    if prop:
        HARNESS_BIN[0] = os.path.join(BUILD, 'sjharness_' + prop)
    h = os.path.join(ROOT, 'harness')
    if os.path.exists('/repo/go.sum'):
        try:
            with open('/repo/go.sum') as a, open(os.path.join(h, 'go.sum'), 'w') as b:
                b.write(a.read())
        except OSError:
            pass
    t0 = time.time()
    r = sh(['go', 'build', '-tags', 'verif', '-o', HARNESS_BIN[0], '.'], cwd=h)
    log.append('go build harness: rc=%d %.1fs' % (r.returncode, time.time() - t0))
    if r.returncode != 0:
        return (r.stdout + r.stderr)[-800:]
    return None


def run_family(prop, fam, n, seed, log, tag=''):
    """generate + run one family; returns (lines, summary, sexp_path)"""
    os.makedirs(os.path.join(BUILD, 'run'), exist_ok=True)
    safe = re.sub(r'[^A-Za-z0-9]', '_', fam)[-40:]
    base = os.path.join(BUILD, 'run', '%s_%s%s' % (prop, safe, tag))
    sexp, rep = base + '.sexp', base + '.report'
    t0 = time.time()
    r = sh([HARNESS_BIN[0], 'gen', '-family', fam, '-n', str(n), '-seed', str(seed), '-out', sexp])
    if r.returncode != 0:
        raise RuntimeError('harness failed on family %s: %s' % (fam, (r.stdout + r.stderr)[-500:]))
    t1 = time.time()
    with open(rep, 'w') as out:
        r2 = subprocess.run([os.path.join(BUILD, 'sjdriver'), sexp], stdout=out, stderr=subprocess.PIPE, text=True, env=ENV)
    if r2.returncode != 0:
        raise RuntimeError('driver failed on family %s: %s' % (fam, r2.stderr[-500:]))
    lines, summary = parse_report(rep)
    log.append('family %s n=%s: harness %.1fs driver %.1fs %s' % (fam, n, t1 - t0, time.time() - t1, r.stderr.strip().splitlines()[-1:] ))
    return lines, summary, sexp


def write_replay(prop, kind, payload):
    os.makedirs(os.path.join(ROOT, 'replays'), exist_ok=True)
    blob = json.dumps(payload, sort_keys=True)
    h = hashlib.sha1(blob.encode()).hexdigest()[:10]
    path = os.path.join(ROOT, 'replays', '%s-%s-%s.json' % (prop, kind, h))
    with open(path, 'w') as f:
        json.dump(payload, f, indent=1, sort_keys=True)
    return path


def replay_input(case_line):
    """the inputs of a '(case ...)' line as a corpus JSON object (see harness famFile)"""
    m = re.search(r'\(replay "((?:[^"\\]|\\.)*)"\)', case_line or '')
    if not m:
        return {}
    raw = re.sub(r'\\x([0-9a-fA-F]{2})', lambda k: chr(int(k.group(1), 16)), m.group(1))
    try:
        return json.loads(raw.encode('latin-1').decode('utf-8'))
    except Exception:
        return {'unparsed': raw}


def main(argv):
    if not argv or not re.match(r'^C\d\d$', argv[0]):
        print(__doc__)
        return 2
    prop = argv[0]
    tier = os.environ.get('VERIF_TIER', 'quick')
    replay = None
    i = 1
    while i < len(argv):
        if argv[i] == '--tier':
            tier = argv[i + 1]; i += 2
        elif argv[i] == '--replay':
            replay = argv[i + 1]; i += 2
        else:
            i += 1
    if tier not in ('quick', 'thorough'):
        tier = 'quick'
    os.environ['VERIF_TIER_EFFECTIVE'] = tier
    ENV['VERIF_TIER_EFFECTIVE'] = tier
    seed = int(os.environ.get('VERIF_SEED', '1') or '1')
    t_start = time.time()
    log = []
    os.makedirs(BUILD, exist_ok=True)
    os.makedirs(os.path.join(ROOT, 'evidence'), exist_ok=True)

    import importlib
    special = None
    try:
        special = importlib.import_module('check_' + prop.lower())
    except ImportError:
        special = None
    if special is not None and hasattr(special, 'run'):
        return special.run(prop, tier, seed, replay)
    if prop not in PROPS:
        print('no check defined for', prop)
        return 2
    return generic_check(prop, tier, seed, replay, t_start, log)


def ensure_setup(log):
    need = not (os.path.exists(os.path.join(BUILD, 'sjdriver')) and os.path.exists(os.path.join(ROOT, 'coq', 'Makefile'))
                and os.path.exists(os.path.join(BUILD, '.setup-stamp')))
    if need:
        r = sh([os.path.join(ROOT, 'bin', 'setup')], cwd=ROOT)
        log.append('setup: rc=%d' % r.returncode)
        if r.returncode != 0:
            return (r.stdout + r.stderr)[-1500:]
    return None


def rebuild_driver_if_stale(log):
    """the extracted model must correspond to the current Coq sources (one rebuild at a time)"""
    import fcntl
    os.makedirs(BUILD, exist_ok=True)
    with open(os.path.join(BUILD, '.lock'), 'a') as lk:
        fcntl.flock(lk, fcntl.LOCK_EX)
        try:
            return _rebuild_driver_if_stale(log)
        finally:
            fcntl.flock(lk, fcntl.LOCK_UN)


def _rebuild_driver_if_stale(log):
    ml = os.path.join(BUILD, 'ml', 'model.ml')
    newest = 0
    for d in ('model', 'spec', 'lib', 'extract', 'gen'):
        for p in glob.glob(os.path.join(ROOT, 'coq', d, '*.v')):
            newest = max(newest, os.path.getmtime(p))
    for p in glob.glob(os.path.join(ROOT, 'driver', '*.ml')):
        newest = max(newest, os.path.getmtime(p))
    if os.path.exists(ml) and os.path.getmtime(ml) >= newest and os.path.exists(os.path.join(BUILD, 'sjdriver')) \
            and os.path.getmtime(os.path.join(BUILD, 'sjdriver')) >= newest:
        return None
    mld = os.path.join(BUILD, 'ml')
    os.makedirs(mld, exist_ok=True)
    r = sh(['timeout', '900', 'coqc', '-Q', os.path.join(ROOT, 'coq'), 'SJ', os.path.join(ROOT, 'coq', 'extract', 'Extract.v')], cwd=mld)
    if r.returncode != 0:
        return 'extraction failed: ' + (r.stdout + r.stderr)[-600:]
    for p in glob.glob(os.path.join(ROOT, 'driver', '*.ml')):
        with open(p) as a, open(os.path.join(mld, os.path.basename(p)), 'w') as b:
            b.write(a.read())
    r = sh('ocamlfind ocamlopt -O2 -w -a model.mli model.ml sexp.ml conv.ml main.ml -o sjdriver.new && mv -f sjdriver.new %s' % os.path.join(BUILD, 'sjdriver'), cwd=mld)
    log.append('driver rebuilt: rc=%d' % r.returncode)
    if r.returncode != 0:
        return 'driver build failed: ' + (r.stdout + r.stderr)[-600:]
    return None


def generic_check(prop, tier, seed, replay, t_start, log, extra_oracle=None):
    cfg = PROPS[prop]
    findings = load_findings()
    open_f = [f for f in findings if f.get('status') == 'open' and prop in f.get('properties', [])]
    known_classes = {f['class']: f for f in open_f}

    problems = []
    err = ensure_setup(log)
    if err:
        problems.append('setup failed: ' + err)
    # ---- P leg
    P = proof_leg(prop, log) if not err else {'ok': False, 'problems': ['setup failed'], 'obligations': 0, 'discharged': 0, 'theorems': [], 'axioms': [], 'checker_cmd': ''}
    if not err:
        e2 = rebuild_driver_if_stale(log)
        if e2:
            P['ok'] = False
            P['problems'].append(e2)
    # ---- T and S legs
    herr = build_harness(log, prop)
    ties, specbad, propbad, impure, stats = [], [], [], [], []
    totals = {}
    samples = []
    fam_counts = {}
    sexps = {}
    harness_failed = None
    if herr:
        harness_failed = herr
    else:
        fams = []
        corpus = os.path.join(ROOT, 'corpus', prop + '.jsonl')
        if replay:
            with open(replay) as f:
                rp = json.load(f)
            tmp = os.path.join(BUILD, 'run', 'replay_%s.jsonl' % prop)
            os.makedirs(os.path.dirname(tmp), exist_ok=True)
            with open(tmp, 'w') as f:
                # a single case is run several times: an outcome that depends on Go's map iteration order
                # (a defect that shows for one order of an object's members only) needs more than one try
                ins = rp.get('inputs') or [rp.get('input', {})]
                for rep in range(1 if len(ins) > 1 else 8):
                    for inp in ins:
                        f.write(json.dumps(inp) + '\n')
            fams = [('file:' + tmp, 0)]
        else:
            if os.path.exists(corpus):
                fams.append(('file:' + corpus, 0))
            fams += cfg['families'][tier]
        for fam, n in fams:
            try:
                lines, summary, sexp = run_family(prop, fam, n, seed, log)
            except RuntimeError as e:
                harness_failed = str(e)
                break
            sexps[fam] = sexp
            for k, v in summary.items():
                totals[k] = totals.get(k, 0) + v
            fam_counts[fam.split('/')[-1]] = summary.get('cases', 0)
            for l in lines['TIE'] + lines['POLLS'] + lines['THM']:
                l['_fam'] = fam
                ties.append(l)
            for l in lines['SPEC']:
                l['_fam'] = fam
                if cfg['spec'](l):
                    specbad.append(l)
            for l in lines['PROP']:
                l['_fam'] = fam
                if l.get('tag') in cfg['tags']:
                    propbad.append(l)
            for l in lines['IMPURE']:
                l['_fam'] = fam
                impure.append(l)
            stats += lines['STAT']
            # a few sample cases for the evidence file
            if len(samples) < 6:
                try:
                    with open(sexp, errors='replace') as f:
                        first = f.readline().strip()
                    if first:
                        samples.append({'family': fam.split('/')[-1], 'case': first[:1500]})
                except OSError:
                    pass

    # ---- the correspondence (or a proof obligation) is broken but no failing input yet: search harder —
    # more cases, another seed, on the families where the disagreements appeared (and the context probes)
    def has_violation():
        for l in specbad + propbad:
            cls = l.get('class', 'NONE')
            parts = cls.split('+') if cls != 'NONE' else []
            if not (parts and all(p in known_classes for p in parts)):
                return True
        return bool(prop == 'C05' and impure)
    if not replay and not harness_failed and (ties or not P['ok']) and not has_violation():
        tie_fams = []
        for t in ties:
            f = t['_fam']
            if not f.startswith('file:') and f not in tie_fams:
                tie_fams.append(f)
        base = dict(cfg['families'][tier])
        search_fams = [(f, max(4 * base.get(f, 2000), 8000)) for f in tie_fams] or [(f, 3 * n if n else 0) for f, n in cfg['families'][tier]]
        if 'ctx' not in [f for f, _ in search_fams]:
            search_fams.append(('ctx', 20000))
        for fam, n in search_fams[:4]:
            try:
                lines, summary, sexp = run_family(prop, fam, n, seed + 7919, log, tag='_search')
            except RuntimeError as e:
                break
            sexps[fam + '#search'] = sexp
            for k, v in summary.items():
                totals[k] = totals.get(k, 0) + v
            for l in lines['SPEC']:
                l['_fam'] = fam + '#search'
                if cfg['spec'](l):
                    specbad.append(l)
            for l in lines['PROP']:
                l['_fam'] = fam + '#search'
                if l.get('tag') in cfg['tags']:
                    propbad.append(l)
            for l in lines['TIE'] + lines['POLLS'] + lines['THM']:
                l['_fam'] = fam + '#search'
                ties.append(l)
            if has_violation():
                break
        log.append('extended search over %s' % [f for f, _ in search_fams[:4]])

    # ---- classify
    violations = []       # failing inputs not explained by a listed finding
    seen_known = {}
    for l in specbad + propbad:
        cls = l.get('class', 'NONE')
        parts = cls.split('+') if cls != 'NONE' else []
        if parts and all(p in known_classes for p in parts):
            for p in parts:
                seen_known.setdefault(p, l)
        else:
            violations.append(l)
    if prop == 'C05':
        violations += [dict(l, kind='IMPURE') for l in impure]

    # ---- verdict
    out_lines = []
    for cls, l in sorted(seen_known.items()):
        f = known_classes[cls]
        out_lines.append('KNOWN-FINDING: property=%s %s: %s (witness: %s)' % (prop, f['id'], f['what'], l.get('text', f.get('witness', {}).get('text', ''))))
    not_reproduced = [f['id'] for f in open_f if f['class'] not in seen_known]
    rc = 0
    replay_path = None
    no_input = False
    if violations:
        v = sorted(violations, key=lambda l: (len(l.get('related', '')), len(l.get('text', '')), l.get('text', '')))[0]
        rel_ids = [i for i in (v.get('related') or '').split(',') if i]
        got = case_inputs(sexps.get(v['_fam'], ''), [v.get('id')] + rel_ids)
        case = got.get(str(v.get('id')), '')
        # a relation over several cases (group, comparison table): the replay carries all of them, in order
        inputs = [replay_input(got[i]) for i in sorted(got, key=int)] if rel_ids else None
        replay_path = write_replay(prop, 'failing-input', {
            'property': prop, 'kind': 'failing-input', 'seed': seed, 'tier': tier,
            'finding': {k: v.get(k) for k in ('kind', 'tag', 'clause', 'entry', 'silent', 'class', 'impl', 'spec', 'model', 'detail', 'text', 'family', 'id')},
            'input': replay_input(case),
            **({'inputs': inputs} if inputs else {}),
            'observed_case': case[:4000],
            'how_to_replay': 'bin/check %s --replay <this file>' % prop,
        })
        rc = 1
    elif harness_failed or not P['ok'] or ties:
        what = []
        if harness_failed:
            what.append({'correspondence': 'harness/driver could not run against the current tree', 'detail': harness_failed})
        if not P['ok']:
            what.append({'proof_obligations': P['problems']})
        if ties:
            t = ties[0]
            case = case_inputs(sexps.get(t['_fam'], ''), [t.get('id')]).get(str(t.get('id')), '')
            what.append({'correspondence': ('model/Exec.v (extracted) vs the implementation' if t.get('kind') != 'THM' else 'instance of theorem %s (proofs/RefineClosed.v) on the extracted model and specification' % t.get('theorem')) + ': %d disagreements' % len(ties),
                         'first': {k: t.get(k) for k in ('kind', 'entry', 'silent', 'k', 'impl', 'model', 'text', 'family', 'id')},
                         'input': replay_input(case)})
        replay_path = write_replay(prop, 'unchecked-obligation', {
            'property': prop, 'kind': 'unchecked-obligation', 'seed': seed, 'tier': tier,
            'no_longer_checks': what,
            'note': 'the property is no longer shown to hold: a proof obligation or the model-implementation correspondence is broken; '
                    'the search leg found no input on which the property itself fails',
            'input': (what[-1].get('input') if ties else {}),
        })
        rc = 1
        no_input = True

    for l in out_lines:
        print(l)
    if not_reproduced:
        print('note: listed findings not reproduced in this run: %s' % ', '.join(not_reproduced))
    if rc:
        print('VIOLATION property=%s replay=%s%s' % (prop, replay_path, ' no-failing-input-found' if no_input else ''))

    # ---- evidence
    evals = totals.get('comparisons', 0) + totals.get('spec_comparisons', 0)
    distinct = 0
    thm = {}
    for s in stats:
        if s.get('name') == 'distinct_nontrivial':
            distinct += int(s.get('n', 0))
        elif s.get('name', '').startswith('thm_'):
            thm[s['name']] = thm.get(s['name'], 0) + int(s.get('n', 0))
    ev = {
        'property_id': prop, 'tier': tier, 'seed': seed, 'level': 'proof',
        'coverage': {
            'obligations': max(P.get('obligations', 0), 0),
            'discharged': P.get('discharged', 0),
            'checker_cmd': P.get('checker_cmd', ''),
            'trusted_base': trusted_base(prop, P),
            'theorems': P.get('theorems', []),
            'axioms_reported_by_print_assumptions': P.get('axioms', []),
            'proof_leg_problems': P.get('problems', []),
            'coqchk': P.get('coqchk'),
            'evaluations': evals,
            'distinct_nontrivial': distinct,
            'rule': 'cases are generated by harness/ (families %s, one PRNG seeded with VERIF_SEED) and run through the implementation '
                    'built from /repo\'s working tree; a case counts as distinct and non-trivial when its (path text, document, variables, options) '
                    'is new in this run and the implementation polled the context at least twice (evaluation went beyond the first path step) '
                    'or returned a classified error; counted by the driver' % ', '.join(k for k, _ in cfg['families'][tier]),
            'samples': samples,
            'cases': totals.get('cases', 0),
            'runs': totals.get('runs', 0),
            'traces_validated_against_impl': totals.get('comparisons', 0),
            'disagreements_checked': len(ties) + len(specbad) + len(propbad) + len(impure),
            'model_vs_impl_disagreements': len(ties),
            'spec_comparisons': totals.get('spec_comparisons', 0),
            'spec_vs_impl_mismatches': totals.get('spec_mismatches', 0),
            'family_case_counts': fam_counts,
            'known_findings_seen': sorted(seen_known),
            'known_findings_not_reproduced': not_reproduced,
            'oracle_misses': totals.get('oracle_miss', 0),
            'theorem_instances': dict(thm, note='refinement theorems (proofs/RefineClosed.v *_is_trace) re-checked on the extracted terms for every generated '
                                                'case that satisfies their decidable hypotheses (thm_hyp_ok of thm_cases); thm_failures must be 0'),
            'explanation': 'P: Coq development rebuilt and Print Assumptions audited; T: extracted model vs implementation on projected observables; '
                           'S: extracted specification and property relations as oracle on the implementation\'s outputs',
        },
        'assumptions': assumptions(prop),
        'wall_s': round(time.time() - t_start, 2),
        'violations': 0 if rc == 0 else max(1, len(violations)),
        'log': log,
    }
    cov = ev['coverage']
    if cov['discharged'] < 1 or cov['obligations'] < 1:
        # the schema wants discharged >= 1 at proof level; when nothing could be discharged (broken build)
        # the counts move aside and the generic exploration keys carry the file
        cov['obligations_stated'] = cov.pop('obligations')
        cov['discharged_count'] = cov.pop('discharged')
        cov['evaluations'] = max(cov['evaluations'], 1)
        cov['distinct_nontrivial'] = max(cov['distinct_nontrivial'], 2) if cov['distinct_nontrivial'] >= 2 else cov['distinct_nontrivial']
    with open(os.path.join(ROOT, 'evidence', prop + '.json'), 'w') as f:
        json.dump(ev, f, indent=1)
    return rc


def trusted_base(prop, P):
    tb = [
        'Coq 8.16.1 kernel incl. vm_compute (no native_compute); full .vo build',
        'axioms reported by Print Assumptions for props/%s.v: %s' % (prop, ', '.join(P.get('axioms', [])) or 'none (closed under the global context)'),
        'extraction: ExtrOcamlBasic + ExtrOcamlString only (Extract Inductive bool, option, unit, list, prod, sumbool, sumor; ascii->char, string->char list); nat/positive/Z/spec_float stay inductive; OCaml 4.13 driver (driver/*.ml)',
        'model written by hand (coq/model/*.v), tied to /repo by the correspondence check on sampled inputs; not derived from the source',
        'translators tools/tables (raise sites, keywords, priorities, operator names, layouts) regenerate coq/gen/*.v from /repo on every run',
        'Go harness (harness/*.go): generators, projection of results, error classification',
        'standard-library behaviour (strconv, math, time, regexp, map iteration) enters through the ExecLib oracle record; regexp matching results are computed by Go on the harness side',
    ]
    return tb


def assumptions(prop):
    return [
        'the implementation is observed through its public API only (path.Parse, Query, First, Exists, Match, ExistsOrMatch)',
        'object-member order is left open: results of .* / .** over objects with two or more members are compared as multisets',
        'keyvalue() ids are compared up to renaming by first occurrence',
        'error values are compared by class (ErrVerbose / ErrExecution / ErrInvalid / cancellation / NULL), never by message text',
    ]


def extra_exec_leg(prop, tier, seed, log):
    """Run the generic executor harness/driver families configured for [prop] (used by the checks that have
    their own main machinery, e.g. C17/C18) and return (ties, violations, known_seen, totals, replay_path)."""
    cfg = PROPS[prop]
    findings = load_findings()
    known_classes = {f['class']: f for f in findings if f.get('status') == 'open' and prop in f.get('properties', [])}
    err = rebuild_driver_if_stale(log)
    if err:
        return [{'kind': 'BUILD', 'text': err}], [], {}, {}, None
    herr = build_harness(log, prop)
    if herr:
        return [{'kind': 'BUILD', 'text': herr}], [], {}, {}, None
    ties, viol, seen, totals, sexps = [], [], {}, {}, {}
    for fam, n in cfg['families'][tier]:
        lines, summary, sexp = run_family(prop, fam, n, seed, log, tag='_x')
        sexps[fam] = sexp
        for k, v in summary.items():
            totals[k] = totals.get(k, 0) + v
        for l in lines['TIE'] + lines['POLLS']:
            l['_fam'] = fam
            ties.append(l)
        for l in lines['SPEC'] + [x for x in lines['PROP'] if x.get('tag') in cfg['tags']]:
            l['_fam'] = fam
            cls = l.get('class', 'NONE')
            parts = cls.split('+') if cls != 'NONE' else []
            if parts and all(p in known_classes for p in parts):
                for p in parts:
                    seen.setdefault(p, l)
            else:
                viol.append(l)
    replay_path = None
    pick = (sorted(viol, key=lambda l: len(l.get('text', ''))) or ties or [None])[0]
    if pick is not None:
        case = case_inputs(sexps.get(pick.get('_fam'), ''), [pick.get('id')]).get(str(pick.get('id')), '')
        replay_path = write_replay(prop, 'failing-input' if viol else 'unchecked-obligation', {
            'property': prop, 'kind': 'failing-input' if viol else 'unchecked-obligation', 'seed': seed, 'tier': tier,
            'leg': 'executor model (model/Exec.v extracted) and specification vs the implementation, family dt',
            'finding': {k: pick.get(k) for k in ('kind', 'tag', 'entry', 'silent', 'class', 'impl', 'spec', 'model', 'detail', 'text', 'family', 'id')},
            'input': replay_input(case), 'observed_case': case[:4000],
            'how_to_replay': 'bin/check %s --replay <this file>' % prop})
    return ties, viol, seen, totals, replay_path
