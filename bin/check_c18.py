"""check_c18 -- property C18: datetime values survive printing, JSON encoding and hostile input.

    run(prop, tier, seed, replay) -> int        (called by bin/check; cwd may be anything)

P: props/C18.v (Coq, Print Assumptions audited).  T: the vectors of the families String/MarshalJSON (S),
UnmarshalJSON incl. hostile input (U), ParseTime(String(v)) (R) and the date/timestamp <-> timestamptz
casts (C) produced by the real code are evaluated on the Gallina model.
S: tools/dtvec/props.go runC18 -- round trips through String/ParseTime/JSON/.string() over the value grid,
UnmarshalJSON on hostile input inside recover(), conversions commuting with the context zone.
See bin/dtcheck.py."""
import os
import sys

sys.path.insert(0, os.path.dirname(os.path.abspath(__file__)))
import dtcheck  # noqa: E402


def run(prop, tier, seed, replay):
    return dtcheck.run('C18', tier, seed, replay)
