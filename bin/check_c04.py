"""bin/check C04: Parse is total - a path or a parse error, never a panic, for any input.

Search leg (tools/parsevec -c04, each input in its own goroutine under recover() and a 5 s
watchdog): arbitrary bytes, token soup, byte mutations of valid paths, near-misses of every
validity rule, numeric boundaries in every numeric position, random like_regex patterns.
Checked per input: path.Parse returns (path, nil) xor (nil, err); err wraps path.ErrPath and
parser.ErrParse; parser.Parse agrees; MustParse panics iff Parse errs; Scan(string), Scan([]byte),
UnmarshalText, UnmarshalBinary fail iff Parse fails (Scan of an empty input is a no-op), wrap
path.ErrScan and parser.ErrParse and otherwise produce the same path; Scan(nil) / Scan("") are
no-ops; every like_regex of an accepted path compiles (RegexNode.Regexp) and the path is executed
once; every input of the curated forbidden lists is rejected."""
import json, collections
import parsecheck as pc

SIZES = {'quick': dict(n_bytes=8000, n_soup=6000, n_mut=8000, n_regex=4000), 'thorough': dict(n_bytes=150000, n_soup=120000, n_mut=150000, n_regex=60000)}
TIE = {'quick': 6000, 'thorough': 120000}
KWU = 'C03-unicode-keyword-lowercase'

RULE = ('search inputs: random byte strings (uniform bytes, grammar-character bytes, printable ASCII), random token soup, byte mutations (replace / insert / '
        'delete / truncate / duplicate) of generated valid paths and of the near-miss list, systematic near-misses (every malformed escape, number form, '
        'comment, string, keyword placement, NUL and invalid UTF-8 in every lexical context), integers and floats around the int64 / float64 limits in every '
        'numeric position, random like_regex patterns x flags, and the curated forbidden inputs per rule of the property; one PRNG seeded with VERIF_SEED. '
        'An input counts as distinct and non-trivial when its byte string is new in this run and it is accepted, or rejected by a validity rule other than '
        'the generic syntax error / encoding checks (error kind not in syntax, utf8, invalid_char, nul); counted by this run.')
ASSUME = ['a hang is a call that does not return within 5 s', 'error chains are inspected with errors.Is only; message texts are used for the histogram of error kinds alone']
CANNOT = ['inputs longer than the generated ones (stack depth / quadratic behaviour on megabyte inputs) are not explored',
          'which error is reported first when an input breaks several rules is not part of the property']


def search(rundir, tier, seed, log, only):
    pc.gen.reseed(seed)
    if only is not None:
        inputs, tags, expect = [only['input']], ['replay'], [only['spec'].get('must_reject')]
    else:
        inputs, tags, expect = pc.gen_search.c04_cases(**SIZES[tier])
        for d in pc.corpus('C04'):
            inputs.append(d['_bytes'])
            tags.append('corpus-file')
            expect.append(d.get('must_reject') or None)
    out = pc.run_go(rundir, '-c04', inputs, 'c04')
    pre, out = out[0], out[1:]
    if len(out) != len(inputs):
        raise RuntimeError('parsevec -c04: %d lines for %d inputs' % (len(out), len(inputs)))
    hist = {'generator': collections.Counter(tags), 'accept_reject': collections.Counter(), 'error_kinds': collections.Counter(), 'failed_checks': collections.Counter(),
            'forbidden_rules': collections.Counter(r for r in expect if r), 'like_regex_compiled_and_executed': 0, 'accepted_by_generator': collections.Counter()}
    failures, samples, distinct = [], [], set()
    if pre != 'PRE ok':
        fl = json.loads(pre[len('PRE FAIL '):]) if pre.startswith('PRE FAIL ') else [{'check': 'preamble', 'exp': 'PRE ok', 'obs': pre[:300]}]
        failures.append({'index': -1, 'hex': '', 'text': '(Scan(nil) / Scan("") / Scan(42))', 'tag': 'preamble', 'check': fl[0]['check'], 'expected': fl[0]['exp'],
                         'observed': fl[0]['obs'], 'all': fl, 'classes': []})
    for i, (b, tag, rule, o) in enumerate(zip(inputs, tags, expect, out)):
        f = o.split(' ', 2)
        if f[0] not in ('A', 'R', 'P'):
            hist['accept_reject']['abnormal'] += 1
            failures.append({'index': i, 'hex': b.hex(), 'text': pc.show(b), 'tag': tag, 'check': 'hang' if o.startswith('HANG') else 'harness',
                             'expected': 'every entry point returns within 5 s', 'observed': o[:300], 'classes': [], 'spec': {'must_reject': rule}})
            continue
        d = json.loads(f[2])
        acc = f[0] == 'A'
        hist['accept_reject']['accepted' if acc else ('panicked' if f[0] == 'P' else 'rejected')] += 1
        if not acc:
            hist['error_kinds'][f[1]] += 1
        else:
            hist['accepted_by_generator'][tag] += 1
        if acc or pc.nontrivial_reject(f[1]):
            distinct.add(b)
        hist['like_regex_compiled_and_executed'] += d.get('regex', 0)
        fl = list(d.get('fail') or [])
        if rule and acc:
            fl.append({'check': 'forbidden-accepted:' + rule, 'exp': 'rejected (rule: %s)' % rule, 'obs': 'accepted'})
        if fl:
            for x in fl:
                hist['failed_checks'][x['check']] += 1
            failures.append({'index': i, 'hex': b.hex(), 'text': pc.show(b), 'tag': tag, 'check': fl[0]['check'], 'expected': fl[0]['exp'], 'observed': fl[0]['obs'],
                             'all': fl, 'classes': [], 'spec': {'must_reject': rule}})
        elif len(samples) < 6 and i % 2999 == 11:
            samples.append({'leg': 'search', 'generator': tag, 'input': pc.show(b), 'hex': b.hex(), 'observed': o[:300]})
    # class predicate of the listed finding: accepted only because U+212A / U+0130 lower-case to ASCII letters
    cand = [f for f in failures if f['check'].startswith('forbidden-accepted') and len(f.get('all', [])) == 1 and
            any(c in bytes.fromhex(f['hex']).decode('utf-8', 'replace') for c in '\u212a\u0130')]
    if cand:
        import check_c03
        a = pc.run_go(rundir, '-c03', [bytes.fromhex(f['hex']) for f in cand], 'c04_kwu')
        b2 = pc.run_go(rundir, '-c03', [check_c03.ascii_fold(bytes.fromhex(f['hex'])) for f in cand], 'c04_fold')
        for f, x, y in zip(cand, a, b2):
            xf, yf = x.split(' '), y.split(' ')
            if xf[0] == 'OK' and yf[0] == 'OK' and xf[1:-2] == yf[1:-2]:
                f['classes'] = [KWU]
    for f in failures[:2]:
        samples.append({'leg': 'search', 'input': f['text'], 'failed': f['check'], 'expected': f['expected'][:300], 'observed': f['observed'][:300], 'classes': f['classes']})
    hist = {k: (dict(v.most_common(300)) if isinstance(v, collections.Counter) else v) for k, v in hist.items()}
    return {'evaluations': len(inputs), 'distinct_nontrivial': len(distinct), 'failures': failures, 'hist': hist, 'samples': samples}


def run(prop='C04', tier='quick', seed=1, replay=None):
    return pc.run_check(prop, tier, seed, replay, dict(search=search, tie_size=TIE, rule=RULE, assumptions=ASSUME, cannot_see=CANNOT))
