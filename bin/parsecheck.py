"""Shared machinery of the checks C02, C03, C04 (parser side).

Legs (contract of bin/check):
  P  checklib.proof_leg(prop): tables regenerated, Coq development rebuilt, Print Assumptions
     of props/<prop>.v audited.
  T  tie: tools/parsevec; the Go tool is rebuilt against the working tree of $VERIF_REPO
     (default /repo), the parser-side Coq model (extracted to OCaml, rebuilt if stale) and the
     real code run on the same generated inputs; accept/reject, tree dump, String() and the
     results of the path.go wrappers are compared.
  S  search: the property itself evaluated on the implementation's outputs (tools/parsevec
     -c02 / -c03 / -c04), no model involved.
Everything random comes from ONE PRNG (tools/parsevec/gen.py `rnd`) seeded with VERIF_SEED.
Build products and run files live under /verif/build/parsevec (PV_OUT)."""
import sys, os, json, time, subprocess, fcntl, shutil, collections

import checklib

ROOT = checklib.ROOT
PV = os.path.join(ROOT, 'tools', 'parsevec')
OUT = os.environ.get('PV_OUT') or os.path.join(ROOT, 'build', 'parsevec')
sys.path.insert(0, PV)
import gen  # noqa: E402
import gen_search  # noqa: E402

MODEL_SHARDS = 12
HARD = ('ACCEPT_REJECT', 'TREE', 'PRINT', 'API', 'go_abnormal', 'MODEL_FLAG', 'model_abnormal')


def repo():
    return os.path.abspath(os.environ.get('VERIF_REPO', '/repo'))


def show(b, limit=400):
    s = b.decode('utf-8', 'backslashreplace')
    return s if len(s) <= limit else s[:limit] + '...'


def unhex_field(f):
    if f == 'e':
        return b''
    return bytes.fromhex(f[1:])


# ---------------------------------------------------------------------------
# build
# ---------------------------------------------------------------------------

def build(rundir, log, need_model=True):
    """build.sh under a lock, then private copies of the binaries for this run"""
    os.makedirs(OUT, exist_ok=True)
    os.makedirs(rundir, exist_ok=True)
    t0 = time.time()
    with open(os.path.join(OUT, '.lock'), 'w') as lock:
        fcntl.flock(lock, fcntl.LOCK_EX)
        try:
            env = dict(checklib.ENV, PV_OUT=OUT, VERIF_REPO=repo())
            r = subprocess.run([os.path.join(PV, 'build.sh')], env=env, capture_output=True, text=True)
            if r.returncode != 0:
                # the Go side alone may still have been built (model stale / Coq broken)
                go_ok = 'built in' in r.stdout
                log.append('build.sh rc=%d: %s' % (r.returncode, (r.stdout + r.stderr)[-600:]))
                msg = (r.stdout + r.stderr)[-1500:]
                have_go = os.path.exists(os.path.join(OUT, 'parsevec')) and os.path.getmtime(os.path.join(OUT, 'parsevec')) >= t0 - 1
                if have_go:
                    shutil.copy2(os.path.join(OUT, 'parsevec'), os.path.join(rundir, 'parsevec'))
                return {'go': have_go, 'model': False, 'error': msg}
            shutil.copy2(os.path.join(OUT, 'parsevec'), os.path.join(rundir, 'parsevec'))
            shutil.copy2(os.path.join(OUT, 'pv_driver'), os.path.join(rundir, 'pv_driver'))
        finally:
            fcntl.flock(lock, fcntl.LOCK_UN)
    log.append('build (go against %s, model %s): %.1fs' % (repo(), 'rebuilt' if 'model rebuilt' in r.stdout else 'up to date', time.time() - t0))
    return {'go': True, 'model': True, 'error': None}


def run_go(rundir, mode, inputs, name):
    """run the Go tool on a list of byte strings; returns the output lines"""
    inp = os.path.join(rundir, name + '.hex')
    with open(inp, 'w') as f:
        for b in inputs:
            f.write(b.hex() + '\n')
    args = [os.path.join(rundir, 'parsevec')] + ([mode] if mode else [])
    with open(inp) as fi:
        r = subprocess.run(args, stdin=fi, capture_output=True, text=True, env=checklib.ENV, timeout=3600)
    lines = r.stdout.split('\n')
    if lines and lines[-1] == '':
        lines.pop()
    if r.returncode != 0:
        raise RuntimeError('parsevec %s exited %d: %s' % (mode, r.returncode, r.stderr[-800:]))
    return lines


def run_model(rundir, inputs, name):
    """the extracted model on the inputs (sharded); regex_ok answered by Go's ast.NewRegex"""
    drv = os.path.join(rundir, 'pv_driver')
    allhex = ''.join(b.hex() + '\n' for b in inputs)
    q = subprocess.run([drv, 'collect'], input=allhex, capture_output=True, text=True, timeout=3600)
    if q.returncode != 0:
        raise RuntimeError('pv_driver collect failed: ' + q.stderr[-500:])
    t = subprocess.run([os.path.join(rundir, 'parsevec'), '-regex'], input=q.stdout, capture_output=True, text=True, env=checklib.ENV, timeout=3600)
    table = os.path.join(rundir, name + '.regex_table')
    with open(table, 'w') as f:
        f.write(t.stdout)
    n = len(inputs)
    k = max(1, min(MODEL_SHARDS, n // 200 + 1))
    size = (n + k - 1) // k
    procs = []
    for i in range(k):
        chunk = inputs[i * size:(i + 1) * size]
        p = subprocess.Popen([drv, 'run', table, '-api'], stdin=subprocess.PIPE, stdout=subprocess.PIPE, stderr=subprocess.PIPE, text=True)
        procs.append((p, ''.join(b.hex() + '\n' for b in chunk), len(chunk)))
    # feed and collect with threads (pipes would block otherwise)
    import threading
    results = [None] * k

    def work(i):
        p, data, _ = procs[i]
        o, e = p.communicate(data)
        results[i] = (o, e, p.returncode)
    ths = [threading.Thread(target=work, args=(i,)) for i in range(k)]
    for th in ths:
        th.start()
    for th in ths:
        th.join()
    lines = []
    for i, (o, e, rc) in enumerate(results):
        ls = o.split('\n')
        if ls and ls[-1] == '':
            ls.pop()
        want = procs[i][2]
        if rc != 0 or len(ls) != want:
            # the model itself died (stack overflow, ...): mark the missing lines
            ls = ls[:want] + ['MODEL_ABORT'] * (want - len(ls))
        lines += ls
    return lines


# ---------------------------------------------------------------------------
# T leg
# ---------------------------------------------------------------------------

def compare_lines(inputs, go, mo):
    """port of tools/parsevec/compare.py: list of (class, index, detail)"""
    res = []
    stats = collections.Counter()
    kinds = collections.Counter()
    for i, (g, m) in enumerate(zip(go, mo)):
        gf, mf = g.split(' '), m.split(' ')
        stats['total'] += 1
        if gf[0] not in ('OK', 'ERR'):
            res.append(('go_abnormal', i, 'go=%s model=%s' % (g[:200], ' '.join(mf[:2]))))
            continue
        if mf[0] not in ('OK', 'ERR'):
            res.append(('model_abnormal', i, 'model=%s' % m[:200]))
            continue
        if gf[0] != mf[0]:
            res.append(('ACCEPT_REJECT', i, 'go=%s model=%s' % (' '.join(gf[:2]), ' '.join(mf[:2]))))
            continue
        if gf[-1] != mf[-1]:
            res.append(('API', i, 'wrappers Parse/MustParse/Scan(string)/Scan([]byte)/UnmarshalBinary/UnmarshalText: go=%s model=%s' % (gf[-1], mf[-1])))
        if gf[0] == 'OK':
            if len(mf) > 1 and mf[1] in ('NOTWF', 'C02FAIL', 'TOKFAIL'):
                res.append(('MODEL_FLAG', i, 'the model flags its own tree: %s' % mf[1]))
                continue
            gtree, mtree = ' '.join(gf[1:-2]), ' '.join(mf[1:-2])
            if gtree != mtree:
                res.append(('TREE', i, 'go=%s model=%s' % (gtree, mtree)))
                continue
            if gf[-2] != mf[-2]:
                res.append(('PRINT', i, 'String(): go=%r model=%r' % (show(unhex_field(gf[-2])), show(unhex_field(mf[-2])))))
                continue
            stats['agree_ok'] += 1
        else:
            if gf[1] != mf[1]:
                kinds['go=%s model=%s' % (gf[1], mf[1])] += 1
                stats['error_kind_differs'] += 1
            stats['agree_err'] += 1
    return res, stats, kinds


def tie_leg(rundir, seed, size, log, only=None):
    """returns dict(ok, ran, inputs, disagreements[...], stats, samples)"""
    T = {'ok': True, 'ran': False, 'inputs': 0, 'disagreements': [], 'stats': {}, 'samples': [], 'error': None, 'hard': 0}
    t0 = time.time()
    try:
        if only is not None:
            inputs = [only]
        else:
            first = gen.generate(seed, size)
            go1 = run_go(rundir, '', first, 'tie_gen1')
            second = []
            for l in go1:
                f = l.split(' ')
                if f[0] == 'OK' and f[-1] != 'e':
                    second.append(bytes.fromhex(f[-1][1:]))
            inputs = gen.dedup(first + second)
        go = run_go(rundir, '-api', inputs, 'tie_inputs')
        mo = run_model(rundir, inputs, 'tie')
        if not (len(go) == len(mo) == len(inputs)):
            raise RuntimeError('line count mismatch: inputs=%d go=%d model=%d' % (len(inputs), len(go), len(mo)))
        res, stats, kinds = compare_lines(inputs, go, mo)
        T['ran'] = True
        T['inputs'] = len(inputs)
        T['stats'] = dict(stats)
        T['error_kind_differences'] = dict(kinds.most_common(12))
        hard = [r for r in res if r[0] in HARD]
        T['hard'] = len(hard)
        T['by_class'] = dict(collections.Counter(r[0] for r in hard))
        hard.sort(key=lambda r: (len(inputs[r[1]]), r[1]))
        for cls, i, detail in hard[:10]:
            T['disagreements'].append({'class': cls, 'index': i, 'hex': inputs[i].hex(), 'text': show(inputs[i]), 'detail': detail[:1500]})
        T['ok'] = not hard
        # samples: both sides' outputs on a few inputs
        want = {'OK': 2, 'ERR': 2}
        for i, (g, m) in enumerate(zip(go, mo)):
            k = g.split(' ')[0]
            if want.get(k, 0) > 0 and 4 < len(inputs[i]) < 60:
                want[k] -= 1
                T['samples'].append({'leg': 'tie', 'input': show(inputs[i]), 'hex': inputs[i].hex(), 'go': g[:600], 'model': m[:600]})
        T['accepted'] = sum(1 for g in go if g.startswith('OK'))
        T['rejected'] = sum(1 for g in go if g.startswith('ERR'))
        T['_inputs'] = inputs
        T['_go'] = go
    except Exception as e:  # the correspondence could not be evaluated at all
        T['ok'] = False
        T['error'] = '%s: %s' % (type(e).__name__, e)
    log.append('tie leg: %d inputs, %d disagreements, %.1fs%s' % (T['inputs'], T['hard'], time.time() - t0, (' ERROR ' + T['error']) if T['error'] else ''))
    return T


# ---------------------------------------------------------------------------
# driver common to the three checks
# ---------------------------------------------------------------------------

def known_findings(prop):
    fs = [f for f in checklib.load_findings() if f.get('status') == 'open' and prop in f.get('properties', []) and f.get('class')]
    return {f['class']: f for f in fs}


def validate_evidence(ev):
    """the applicable parts of /root/.vp/EVIDENCE.schema.json (no jsonschema module offline)"""
    for k in ('property_id', 'tier', 'seed', 'level', 'coverage', 'wall_s'):
        assert k in ev, k
    assert ev['tier'] in ('quick', 'thorough') and isinstance(ev['seed'], int) and isinstance(ev['wall_s'], (int, float))
    c = ev['coverage']
    assert isinstance(c.get('samples', []), list)
    for k in ('evaluations', 'distinct_nontrivial', 'obligations', 'discharged', 'disagreements_checked', 'traces_validated_against_impl'):
        if k in c:
            assert isinstance(c[k], int) and c[k] >= 0, k
    if all(k in c for k in ('obligations', 'discharged', 'checker_cmd', 'trusted_base')):
        assert c['obligations'] >= 1 and c['discharged'] >= 1 and c['checker_cmd'].strip()
        assert all(isinstance(x, str) for x in c['trusted_base'])
    else:
        assert c.get('evaluations', 0) >= 1 and c.get('distinct_nontrivial', 0) >= 2
    return True


TRUSTED = [
    'parser-side model coq/model/{Lexer,Parser,Printer,PathAPI}.v written by hand (goyacc tables are NOT translated: the model is a recursive-descent '
    'reading of grammar.y), tied to the code by the correspondence run only',
    'tools/parsevec/coq/ParseInst.v: concrete GoLib instance (Unicode tables gen/Unicode.v, lib/Strconv.v model of strconv) and the tree dump; '
    'extraction ExtrOcamlBasic + ExtrOcamlString; OCaml 4.13 driver tools/parsevec/coq/driver.ml',
    'regexp/syntax is not modelled: the model\'s regex_ok oracle is answered by Go\'s ast.NewRegex on the tie inputs',
    'tools/parsevec/*.go (tree dump through the exported accessors, reflection for RegexNode.pattern/flags, result canonicalisation, classifiers of the '
    'known-finding classes) and tools/parsevec/gen*.py (generators, expected trees of the C03 spellings)',
]


def write_evidence(prop, tier, seed, P, T, S, rc, n_viol, seen_known, t_start, log, rule, assumptions, cannot_see):
    cov = {
        'obligations': P.get('obligations', 0),
        'discharged': P.get('discharged', 0),
        'checker_cmd': P.get('checker_cmd', '') or 'bin/check ' + prop,
        'trusted_base': checklib.trusted_base(prop, P)[:2] + TRUSTED,
        'theorems': P.get('theorems', []),
        'axioms_reported_by_print_assumptions': P.get('axioms', []),
        'proof_leg_problems': P.get('problems', []),
        'evaluations': int(S.get('evaluations', 0)) + int(T.get('inputs', 0)),
        'distinct_nontrivial': int(S.get('distinct_nontrivial', 0)),
        'rule': rule,
        'samples': (S.get('samples', []) + T.get('samples', []))[:12],
        'search_inputs': S.get('evaluations', 0),
        'search_failures': S.get('n_fail', 0),
        'search_failures_known': S.get('n_known', 0),
        'search_failures_unexplained': S.get('n_viol', 0),
        'input_distribution': S.get('hist', {}),
        'tie_inputs': T.get('inputs', 0),
        'tie_accept_reject': {'accepted': T.get('accepted', 0), 'rejected': T.get('rejected', 0)},
        'tie_stats': T.get('stats', {}),
        'tie_error_message_kind_differences': T.get('error_kind_differences', {}),
        'traces_validated_against_impl': T.get('inputs', 0),
        'disagreements_checked': T.get('inputs', 0),
        'disagreements': T.get('hard', 0),
        'disagreement_examples': [{k: d[k] for k in ('class', 'text', 'detail')} for d in T.get('disagreements', [])[:5]],
        'tie_error': T.get('error'),
        'known_findings_seen': sorted(seen_known),
        'known_findings_not_reproduced': S.get('not_reproduced', []),
        'repository': repo(),
        'cannot_see': cannot_see,
        'explanation': 'P: Coq development rebuilt, Print Assumptions of props/%s.v audited; T: extracted parser-side model vs the Go code on generated '
                       'inputs (accept/reject, tree, String(), wrappers); S: the property evaluated directly on the implementation' % prop,
    }
    if cov['discharged'] < 1 or cov['obligations'] < 1:
        # nothing discharged: do not claim the proof keys (the schema wants >= 1)
        cov['obligations_stated'] = cov.pop('obligations')
        cov['discharged_count'] = cov.pop('discharged')
        cov['evaluations'] = max(cov['evaluations'], 1)
    ev = {'property_id': prop, 'tier': tier, 'seed': int(seed), 'level': 'proof', 'coverage': cov, 'assumptions': assumptions,
          'wall_s': round(time.time() - t_start, 2), 'violations': n_viol, 'log': log}
    try:
        validate_evidence(ev)
    except AssertionError as e:
        ev['schema_self_check'] = 'FAILED: %r' % (e,)
    os.makedirs(os.path.join(ROOT, 'evidence'), exist_ok=True)
    tmp = os.path.join(ROOT, 'evidence', '%s.json.tmp%d' % (prop, os.getpid()))
    with open(tmp, 'w') as f:
        json.dump(ev, f, indent=1)
    os.replace(tmp, os.path.join(ROOT, 'evidence', prop + '.json'))


def load_replay(path, log):
    try:
        with open(path) as f:
            return json.load(f)
    except (OSError, ValueError) as e:
        log.append('replay file unreadable: %r' % (e,))
        return None


def run_check(prop, tier, seed, replay, cfg):
    """cfg: dict(search=fn(rundir, tier, seed, log, only) -> S, tie_size={tier: n}, rule, assumptions, cannot_see)
    S: dict(evaluations, distinct_nontrivial, failures=[{index, hex, text, check, expected, observed, classes[], extra}], hist, samples, error)"""
    t_start = time.time()
    if tier not in ('quick', 'thorough'):
        tier = 'quick'
    try:
        seed = int(os.environ.get('VERIF_SEED', seed) or seed)
    except ValueError:
        seed = 1
    log = []
    rundir = os.path.join(OUT, 'run-%s-%d' % (prop, os.getpid()))
    try:
        return _run_check(prop, tier, seed, replay, cfg, t_start, log, rundir)
    finally:
        shutil.rmtree(rundir, ignore_errors=True)


def _classify(S, known):
    """split the failures of the search leg into listed known findings and violations"""
    seen, viol, dup = {}, [], set()
    for f in S.get('failures', []):
        if (f['hex'], f['check']) in dup:
            continue
        dup.add((f['hex'], f['check']))
        cls = f.get('classes') or []
        if cls and all(c in known for c in cls):
            for c in cls:
                if c not in seen or len(f['hex']) < len(seen[c]['hex']):
                    seen[c] = f
        else:
            viol.append(f)
    return seen, viol


def _run_check(prop, tier, seed, replay, cfg, t_start, log, rundir):
    known = known_findings(prop)
    rp = load_replay(replay, log) if replay else None

    # ---------------- replay of one concrete input
    if rp is not None and isinstance(rp.get('input'), dict) and rp['input'].get('hex') is not None:
        inp = bytes.fromhex(rp['input']['hex'])
        leg = rp.get('leg', 'S')
        b = build(rundir, log, need_model=(leg == 'T'))
        if not b['go']:
            print('C0x replay: the Go tool does not build against %s: %s' % (repo(), (b['error'] or '')[-600:]), file=sys.stderr)
            print('VIOLATION property=%s replay=%s%s' % (prop, replay, ' no-failing-input-found' if leg == 'T' else ''))
            return 1
        if leg == 'T':
            T = tie_leg(rundir, seed, 0, log, only=inp) if b['model'] else {'ok': False, 'error': b['error'], 'disagreements': []}
            if not T['ok']:
                for d in T.get('disagreements', []):
                    sys.stderr.write('%s tie: %s on %r: %s\n' % (prop, d['class'], d['text'], d['detail'][:600]))
                print('VIOLATION property=%s replay=%s no-failing-input-found' % (prop, replay))
                return 1
            print('%s replay: model and implementation agree on %r' % (prop, show(inp)))
            return 0
        S = cfg['search'](rundir, tier, seed, log, {'input': inp, 'spec': rp['input']})
        seen, viol = _classify(S, known)
        for c, f in sorted(seen.items()):
            print('KNOWN-FINDING: property=%s %s: %s (witness: %s)' % (prop, known[c]['id'], known[c]['what'], f['text']))
        if viol or S.get('error'):
            for f in viol[:3]:
                sys.stderr.write('%s still fails on %r: %s: expected %s, observed %s\n' % (prop, f['text'], f['check'], f['expected'][:500], f['observed'][:500]))
            print('VIOLATION property=%s replay=%s' % (prop, replay))
            return 1
        print('%s replay: %r no longer fails' % (prop, show(inp)))
        return 0
    if rp is not None and rp.get('seed') is not None:
        # a replay without a failing input: re-run the whole check with the recorded seed and tier
        seed = int(rp['seed'])
        tier = rp.get('tier', tier)

    # ---------------- P leg
    err = checklib.ensure_setup(log)
    if err:
        errl = [l for l in err.splitlines() if not l.startswith('Closed under')]
        P = {'ok': False, 'problems': ['setup failed: ' + '\n'.join(errl[-12:])], 'obligations': 0, 'discharged': 0, 'theorems': [], 'axioms': [], 'checker_cmd': ''}
    else:
        P = checklib.proof_leg(prop, log)
        # translator tie for the generated parser: grammar.go must be goyacc(grammar.y)
        import yacccheck
        yok, ydetail = yacccheck.check(repo(), prop)
        P['obligations'] = P.get('obligations', 0) + 1
        log.append('yacc: ' + ydetail)
        if yok:
            if P['ok']:
                P['discharged'] = P.get('discharged', 0) + 1
        else:
            P['ok'] = False
            P['discharged'] = 0
            P['problems'].append(ydetail)
        P['checker_cmd'] = P.get('checker_cmd', '') + ' && build/goyacc -o grammar.go -p path grammar.y && diff (ignoring //line) with path/parser/grammar.go'
    log.append('proof leg: ok=%s obligations=%d discharged=%d %.1fs' % (P['ok'], P.get('obligations', 0), P.get('discharged', 0), time.time() - t_start))

    # ---------------- build, T leg, S leg
    b = build(rundir, log)
    if b['go'] and b['model']:
        T = tie_leg(rundir, seed, cfg['tie_size'][tier], log)
    else:
        T = {'ok': False, 'ran': False, 'inputs': 0, 'disagreements': [], 'hard': 0, 'samples': [], 'stats': {},
             'error': ('the Go tool does not build against the current tree: ' if not b['go'] else 'the extracted model does not build: ') + (b['error'] or '')}
    if b['go']:
        t1 = time.time()
        try:
            S = cfg['search'](rundir, tier, seed, log, None)
        except Exception as e:
            S = {'evaluations': 0, 'distinct_nontrivial': 0, 'failures': [], 'hist': {}, 'samples': [], 'error': '%s: %s' % (type(e).__name__, e)}
        log.append('search leg: %d inputs, %d failing, %.1fs%s' % (S.get('evaluations', 0), len(S.get('failures', [])), time.time() - t1,
                                                                     (' ERROR ' + S['error']) if S.get('error') else ''))
    else:
        S = {'evaluations': 0, 'distinct_nontrivial': 0, 'failures': [], 'hist': {}, 'samples': [], 'error': 'Go tool not built'}

    seen, viol = _classify(S, known)
    S['n_fail'] = len(S.get('failures', []))
    S['n_known'] = S['n_fail'] - len(viol)
    S['n_viol'] = len(viol)
    S['not_reproduced'] = [f['id'] for c, f in known.items() if c not in seen]

    # ---------------- verdict
    for c, f in sorted(seen.items()):
        print('KNOWN-FINDING: property=%s %s: %s (witness: %s)' % (prop, known[c]['id'], known[c]['what'], f['text']))
    if S['not_reproduced']:
        print('note: listed findings not reproduced in this run: %s' % ', '.join(S['not_reproduced']))
    rc, replay_path, no_input = 0, None, False
    how = 'bin/check %s --replay <this file>   (VERIF_REPO selects the tree, default /repo)' % prop
    if viol:
        viol = sorted(viol, key=lambda f: (len(f['hex']), f['index']))
        v = viol[0]
        replay_path = checklib.write_replay(prop, 'failing-input', {
            'property': prop, 'kind': 'failing-input', 'leg': 'S', 'seed': seed, 'tier': tier, 'index': v['index'], 'generator': v.get('tag'),
            'input': dict(v.get('spec') or {}, hex=v['hex'], text=v['text']),
            'check': v['check'], 'expected': v['expected'], 'observed': v['observed'], 'all_failed_checks': v.get('all', [])[:12],
            'other_failing_inputs': [{'text': f['text'], 'hex': f['hex'], 'check': f['check']} for f in viol[1:6]],
            'failing_inputs_total': len(viol), 'repository': repo(), 'how_to_replay': how})
        rc = 1
    elif not P['ok'] or not T['ok'] or S.get('error'):
        what = []
        if not P['ok']:
            what.append({'obligation': 'props/%s.v (proof leg)' % prop, 'problems': P['problems']})
        if not T['ok']:
            what.append({'correspondence': 'coq/model/{Lexer,Parser,Printer,PathAPI}.v (extracted) vs path.Parse / String / Scan / Unmarshal* of %s' % repo(),
                         'disagreements': T.get('hard', 0), 'by_class': T.get('by_class', {}), 'examples': T.get('disagreements', [])[:5], 'error': T.get('error')})
        if S.get('error'):
            what.append({'search_leg': 'could not be evaluated', 'error': S['error']})
        first = (T.get('disagreements') or [None])[0]
        payload = {'property': prop, 'kind': 'unchecked-obligation', 'leg': 'T' if first else 'P',
                   'seed': seed, 'tier': tier, 'no_longer_checks': what, 'repository': repo(), 'how_to_replay': how,
                   'note': 'the property is no longer shown to hold: a proof obligation or the model-implementation correspondence is broken; '
                           'the search leg found no input on which the property itself fails'}
        if first:
            payload['input'] = {'hex': first['hex'], 'text': first['text']}
            payload['index'] = first['index']
            payload['observed'] = first['detail']
            payload['expected'] = 'the extracted model and the implementation agree on accept/reject, tree, String() and the wrappers'
        else:
            payload['input'] = {}
        replay_path = checklib.write_replay(prop, 'unchecked-obligation', payload)
        rc, no_input = 1, True

    write_evidence(prop, tier, seed, P, T, S, rc, (max(1, len(viol)) if rc else 0), seen, t_start, log, cfg['rule'], cfg['assumptions'], cfg['cannot_see'])

    if rc:
        for p in P.get('problems', []):
            sys.stderr.write('%s proof leg: %s\n' % (prop, p))
        if T.get('error'):
            sys.stderr.write('%s tie leg: %s\n' % (prop, T['error'][-1500:]))
        for d in T.get('disagreements', [])[:3]:
            sys.stderr.write('%s tie: %s on %r: %s\n' % (prop, d['class'], d['text'], d['detail'][:600]))
        for f in sorted(viol, key=lambda f: len(f['hex']))[:3]:
            sys.stderr.write('%s search: %r: %s: expected %s, observed %s\n' % (prop, f['text'], f['check'], f['expected'][:400], f['observed'][:400]))
        print('VIOLATION property=%s replay=%s%s' % (prop, replay_path, ' no-failing-input-found' if no_input else ''))
    else:
        print('%s ok: %d/%d obligations; tie %d inputs, 0 disagreements; search %d inputs, %d failing, all in listed known-finding classes (%.0fs)'
              % (prop, P.get('discharged', 0), P.get('obligations', 0), T.get('inputs', 0), S.get('evaluations', 0), S['n_fail'], time.time() - t_start))
    sys.stdout.flush()
    return rc


def corpus(prop):
    """regression inputs of corpus/<prop>.jsonl: objects with "text" (or "hex") and optional expectations"""
    out = []
    try:
        with open(os.path.join(ROOT, 'corpus', prop + '.jsonl')) as f:
            for line in f:
                line = line.strip()
                if not line:
                    continue
                try:
                    d = json.loads(line)
                except ValueError:
                    continue
                if 'hex' in d:
                    d['_bytes'] = bytes.fromhex(d['hex'])
                elif 'text' in d:
                    d['_bytes'] = d['text'].encode('utf-8', 'surrogatepass')
                else:
                    continue
                out.append(d)
    except OSError:
        pass
    return out


def nontrivial_reject(kind):
    """a rejection that exercised a validity rule beyond the generic syntax error / encoding check"""
    return kind not in ('syntax', 'utf8', 'invalid_char', 'nul', '-', 'other')
