"""dtcheck -- shared machinery of the datetime checks C17 and C18 (bin/check_c17.py, bin/check_c18.py).

    run(prop, tier, seed, replay) -> int        (cwd may be anything)

Three legs:

  P  proof        checklib.proof_leg(prop): translated tables regenerated, `make` in coq/,
                  props/<prop>.v compiled, Print Assumptions audited, forbidden constructs grepped.
  T  tie          tools/dtvec (Go) is copied to build/dtvec/<prop>/go, pointed at the repository's
                  CURRENT working tree ($VERIF_REPO, default /repo) and built offline.  `dtvec vectors`
                  runs the REAL path/types + path/exec code over the grid (plus pseudo-random extras
                  seeded with VERIF_SEED) and prints one vector per line; the vectors of the property's
                  families are turned into Coq files build/dtvec/<prop>/coq/Shard_NNN.v which evaluate
                  the Gallina model (coq/model/{Civil,GoTime,DateTime}.v) on the same inputs with
                  vm_compute and print the vectors on which model and implementation differ.
                  A difference = broken correspondence.
  S  search       `dtvec props` evaluates the property itself on the implementation's own outputs
                  (no model): see tools/dtvec/props.go.  A failure whose class is not an open entry of
                  known_findings.json for this property is a violation.

Verdict: exit 0 iff P holds, T shows no difference and every S failure is a listed known finding;
otherwise exactly one line  VIOLATION property=Cnn replay=<file>[ no-failing-input-found].
evidence/<prop>.json is rewritten on every run."""
import concurrent.futures
import json
import os
import random
import re
import shutil
import subprocess
import sys
import time

sys.path.insert(0, os.path.dirname(os.path.abspath(__file__)))
import checklib  # noqa: E402

ROOT = checklib.ROOT
TOOL = os.path.join(ROOT, 'tools', 'dtvec')
BUILD = os.path.join(ROOT, 'build', 'dtvec')
NPROC = os.cpu_count() or 4

# vector families per property (first field of a vector line; C18 takes only the
# date/timestamp <-> timestamptz casts out of the C family)
FAMILIES = {
    'C17': {'P': 'types.ParseTime + String()', 'C': 'To* casts', 'X': 'exec comparison of stored values',
            'E': 'exec_datetime_method: $.method(prec) on a string', 'Q': '$[0].datetime() OP $[1].datetime()'},
    'C18': {'S': 'String() and MarshalJSON', 'U': 'UnmarshalJSON (round trip and hostile input)',
            'R': 'ParseTime(String(v))', 'C': 'date/timestamp <-> timestamptz casts'},
}
TIERS = {
    'quick': dict(extra=4000, sample=7000, shard=450),
    'thorough': dict(extra=30000, sample=None, shard=1500),
}
KINDS = ['KDate', 'KTime', 'KTimeTZ', 'KTimestamp', 'KTimestampTZ']
KIND_NAMES = ['date', 'time', 'timetz', 'timestamp', 'timestamptz']
TARGETS = ['TDate', 'TTime', 'TTimeTZ', 'TTimestamp', 'TTimestampTZ']
METHODS = ['date', 'time', 'time_tz', 'timestamp', 'timestamp_tz', 'datetime']

CANNOT_SEE = {
    'C17': [
        'the .datetime(template) form (unimplemented in the library: always an error)',
        'Time -> TimeTZ under a named zone reads time.Now(): the tie leg compares it for fixed-offset zones only; the search leg '
        'runs it on the day of the run only',
        'named zones beyond the exported transition tables (instants after 2098) in the tie leg; the search leg has no such limit',
        'datetime comparisons inside filters, where errors are absorbed by the surrounding predicate (covered by C10/C11)',
        'strings outside the generated shapes (five documented shapes, mutated/lenient variants of them, random fractions and offsets)',
    ],
    'C18': [
        'values with a year outside 1..9999 or an offset with seconds (outside the property; the tie leg still compares String()/JSON on some)',
        'UnmarshalJSON called directly on text that is not JSON at all (e.g. a bare 2023-01-02 without quotes is accepted by Date): '
        'not reachable through encoding/json and left out of the non-string rule',
        'JSON strings with escape sequences ("\\u0032023-01-02"): rejected with an error by all five types; only absence of a panic is checked',
        'named zones other than America/New_York, Australia/Lord_Howe, Pacific/Apia, America/Havana (plus the ones added by the thorough tier)',
        'the process-local time zone other than the ones the check sets through TZ (UTC; America/New_York in the thorough tier)',
    ],
}


def repo():
    return os.environ.get('VERIF_REPO', '/repo')


def sh(cmd, cwd=None, timeout=None, env=None, stdout=None):
    try:
        r = subprocess.run(cmd, cwd=cwd, env=env or checklib.ENV, stdout=stdout or subprocess.PIPE, stderr=subprocess.PIPE,
                           timeout=timeout)
        out = r.stdout.decode('utf-8', 'replace') if r.stdout is not None else ''
        return r.returncode, out, r.stderr.decode('utf-8', 'replace')
    except subprocess.TimeoutExpired:
        return 124, '', 'TIMEOUT after %ss' % timeout


# ---------------------------------------------------------------------------
# building the Go tool against the repository under test
# ---------------------------------------------------------------------------
def build_tool(prop, log):
    """returns (binary path, None) or (None, error text)"""
    t0 = time.time()
    base = os.path.join(BUILD, prop)
    gd = os.path.join(base, 'go')
    shutil.rmtree(gd, ignore_errors=True)
    os.makedirs(gd, exist_ok=True)
    for f in os.listdir(TOOL):
        if f.endswith('.go'):
            shutil.copy(os.path.join(TOOL, f), os.path.join(gd, f))
    with open(os.path.join(TOOL, 'go.mod')) as f:
        mod = f.read()
    mod = re.sub(r'(replace\s+github\.com/theory/sqljson\s*=>\s*)\S+', lambda m: m.group(1) + repo(), mod)
    with open(os.path.join(gd, 'go.mod'), 'w') as f:
        f.write(mod)
    sums = set()
    for p in (os.path.join(TOOL, 'go.sum'), os.path.join(repo(), 'go.sum')):
        try:
            with open(p) as f:
                sums.update(l for l in f.read().splitlines() if l.strip())
        except OSError:
            pass
    with open(os.path.join(gd, 'go.sum'), 'w') as f:
        f.write('\n'.join(sorted(sums)) + '\n')
    binp = os.path.join(base, 'dtvec')
    rc, out, err = sh(['go', 'build', '-o', binp, '.'], cwd=gd, timeout=900)
    log.append('go build tools/dtvec against %s: rc=%d %.1fs' % (repo(), rc, time.time() - t0))
    if rc != 0:
        return None, 'tools/dtvec does not build against %s: %s' % (repo(), (out + err)[-1200:])
    return binp, None


# ---------------------------------------------------------------------------
# vectors -> Coq
# ---------------------------------------------------------------------------
PRELUDE = r'''(* generated by bin/dtcheck.py - do not edit *)
From SJ Require Import lib.Base model.Json model.Civil model.GoTime model.DateTime.
Open Scope Z_scope.

Definition bs (l : list Z) : string := str_of_list (map ascii_of_Z l).

Definition dt_eqb (a b : datetime) : bool :=
  dtkind_eqb (dt_kind a) (dt_kind b) && (dt_sec a =? dt_sec b)
  && (dt_nsec a =? dt_nsec b) && (dt_off a =? dt_off b).

Definition odt_eqb (a b : option datetime) : bool :=
  match a, b with
  | Some x, Some y => dt_eqb x y
  | None, None => true
  | _, _ => false
  end.

Definition chkP (ctx : dctx) (prec : Z) (src : string) (res : option datetime) (str : string) : bool :=
  odt_eqb (parse_time ctx src prec) res
  && match res with Some d => String.eqb (dt_string d) str | None => true end.

Definition chkS (d : datetime) (str js : string) : bool :=
  String.eqb (dt_string d) str && String.eqb (dt_marshal_json d) js.

Inductive ures := UPanic | UErr | UOk (d : datetime).
Definition chkU (k : dtkind) (data : string) (r : ures) : bool :=
  match dt_unmarshal_json k data, r with
  | Ret (Some d), UOk d' => dt_eqb d d'
  | Ret None, UErr => true
  | Panic _, UPanic => true
  | _, _ => false
  end.

Definition cast_to (t : dttarget) : dctx -> datetime -> datetime :=
  match t with
  | TDate => dt_to_date | TTime => dt_to_time | TTimeTZ => dt_to_timetz
  | TTimestamp => dt_to_timestamp | TTimestampTZ => dt_to_timestamptz
  end.
Definition chkC (t : dttarget) (ctx : dctx) (d res : datetime) : bool :=
  dt_eqb (cast_to t ctx d) res.

Definition chkX (useTZ : bool) (ctx : dctx) (a b : datetime) (res : Z) : bool :=
  match compare_datetime useTZ ctx a b with
  | CmpOk c => c =? res
  | CmpIncomparable => res =? 2
  | CmpTZRequired => res =? 3
  end.

Definition dtm_eqb (a b : dtm_result) : bool :=
  match a, b with
  | DtmOk x, DtmOk y => dt_eqb x y
  | DtmNotRecognized, DtmNotRecognized => true
  | DtmTZRequired, DtmTZRequired => true
  | DtmBadPrecision, DtmBadPrecision => true
  | _, _ => false
  end.
Definition chkE (t : option dttarget) (prec : option Z) (useTZ : bool) (ctx : dctx)
           (src : string) (res : dtm_result) : bool :=
  dtm_eqb (exec_datetime_method t prec useTZ ctx src) res.

Definition chkQ (useTZ : bool) (ctx : dctx) (a b : string) (res : Z) : bool :=
  match parse_time ctx a (-1), parse_time ctx b (-1) with
  | Some x, Some y => chkX useTZ ctx x y res
  | _, _ => false
  end.

Definition cmpQ (useTZ : bool) (ctx : dctx) (a b : string) : option cmp_result :=
  match parse_time ctx a (-1), parse_time ctx b (-1) with
  | Some x, Some y => Some (compare_datetime useTZ ctx x y)
  | _, _ => None
  end.

Definition failed_of (vecs : list (Z * bool)) : list Z :=
  map fst (filter (fun p => negb (snd p)) vecs).
'''


def num(x):
    if not re.match(r'^-?\d+$', x):
        raise ValueError('not a number: %r' % x)
    return '(%s)' % x if x.startswith('-') else x


def bs(x):
    if x == 'e' or x == '':
        return '(bs [])'
    parts = x.split('.')
    for p in parts:
        if not p.isdigit():
            raise ValueError('bad byte string %r' % x)
    return '(bs [%s])' % ';'.join(parts)


def dt(x):
    p = x.split(':')
    if len(p) != 4:
        raise ValueError('bad datetime %r' % x)
    return '(mkdt %s %s %s %s)' % (KINDS[int(p[0])], num(p[1]), num(p[2]), num(p[3]))


def boolc(x):
    return 'true' if x == '1' else 'false'


def zone_ok(z):
    if not re.match(r'^[A-Za-z0-9_]+$', z):
        raise ValueError('bad zone id %r' % z)
    return 'c_' + z


def coq_terms(line):
    """(check expression : bool, model expression for diagnostics) of one vector line"""
    f = line.split('|')
    k = f[0]
    try:
        if k in ('P', 'R'):
            if f[4] == '-':
                r = 'None'
            else:
                r = '(Some %s)' % dt(f[4])
            return ('chkP %s %s %s %s %s' % (zone_ok(f[1]), num(f[2]), bs(f[3]), r, bs(f[5])),
                    'option_map (fun d => (d, dt_string d)) (parse_time %s %s %s)' % (zone_ok(f[1]), bs(f[3]), num(f[2])))
        if k == 'S':
            return ('chkS %s %s %s' % (dt(f[1]), bs(f[2]), bs(f[3])), '(dt_string %s, dt_marshal_json %s)' % (dt(f[1]), dt(f[1])))
        if k == 'U':
            r = 'UPanic' if f[3] == 'panic' else 'UErr' if f[3] == 'err' else '(UOk %s)' % dt(f[3])
            return ('chkU %s %s %s' % (KINDS[int(f[1])], bs(f[2]), r), 'dt_unmarshal_json %s %s' % (KINDS[int(f[1])], bs(f[2])))
        if k == 'C':
            return ('chkC %s %s %s %s' % (TARGETS[int(f[1])], zone_ok(f[2]), dt(f[3]), dt(f[4])),
                    'cast_to %s %s %s' % (TARGETS[int(f[1])], zone_ok(f[2]), dt(f[3])))
        if k == 'X':
            return ('chkX %s %s %s %s %s' % (boolc(f[1]), zone_ok(f[2]), dt(f[3]), dt(f[4]), num(f[5])),
                    'compare_datetime %s %s %s %s' % (boolc(f[1]), zone_ok(f[2]), dt(f[3]), dt(f[4])))
        if k == 'Q':
            return ('chkQ %s %s %s %s %s' % (boolc(f[1]), zone_ok(f[2]), bs(f[3]), bs(f[4]), num(f[5])),
                    'cmpQ %s %s %s %s' % (boolc(f[1]), zone_ok(f[2]), bs(f[3]), bs(f[4])))
        if k == 'E':
            t = 'None' if f[1] == '5' else '(Some %s)' % TARGETS[int(f[1])]
            p = 'None' if f[2] == 'n' else '(Some %s)' % num(f[2])
            model = 'exec_datetime_method %s %s %s %s %s' % (t, p, boolc(f[3]), zone_ok(f[4]), bs(f[5]))
            res = {'notrec': 'DtmNotRecognized', 'tzreq': 'DtmTZRequired', 'badprec': 'DtmBadPrecision'}.get(f[6])
            if res is None:
                res = '(DtmOk %s)' % dt(f[6])
            return ('chkE %s %s %s %s %s %s' % (t, p, boolc(f[3]), zone_ok(f[4]), bs(f[5]), res), model)
    except (ValueError, IndexError) as e:
        # an output the model has no counterpart for ("bad", a panic of ParseTime, ...): a disagreement by construction
        model = None
        try:
            g = list(f)
            if k in ('P', 'R'):
                model = 'option_map (fun d => (d, dt_string d)) (parse_time %s %s %s)' % (zone_ok(g[1]), bs(g[3]), num(g[2]))
            elif k == 'X':
                model = 'compare_datetime %s %s %s %s' % (boolc(g[1]), zone_ok(g[2]), dt(g[3]), dt(g[4]))
            elif k == 'Q':
                model = 'cmpQ %s %s %s %s' % (boolc(g[1]), zone_ok(g[2]), bs(g[3]), bs(g[4]))
            elif k == 'E':
                t = 'None' if g[1] == '5' else '(Some %s)' % TARGETS[int(g[1])]
                p = 'None' if g[2] == 'n' else '(Some %s)' % num(g[2])
                model = 'exec_datetime_method %s %s %s %s %s' % (t, p, boolc(g[3]), zone_ok(g[4]), bs(g[5]))
        except (ValueError, IndexError):
            model = None
        return ('false', model)
    raise ValueError('unknown vector kind %r' % k)


def unbs(x):
    if x in ('e', ''):
        return ''
    try:
        return bytes(int(p) for p in x.split('.')).decode('utf-8', 'backslashreplace')
    except ValueError:
        return x


def undt(x):
    p = x.split(':')
    if len(p) != 4:
        return x
    return {'type': KIND_NAMES[int(p[0])], 'unix_sec': int(p[1]), 'nsec': int(p[2]), 'offset_sec': int(p[3])}


def describe(line):
    """human-readable input / implementation output of a vector line"""
    f = line.split('|')
    k = f[0]
    try:
        if k in ('P', 'R'):
            return ({'call': 'types.ParseTime(ctx, src, precision)' + (' with src = String() of a stored value' if k == 'R' else ''),
                     'zone': f[1], 'precision': int(f[2]), 'src': unbs(f[3])},
                    {'result': 'not parsed' if f[4] == '-' else undt(f[4]), 'String()': unbs(f[5])})
        if k == 'S':
            return ({'call': 'String(), MarshalJSON', 'value': undt(f[1])}, {'String()': unbs(f[2]), 'json': unbs(f[3])})
        if k == 'U':
            return ({'call': '(*%s).UnmarshalJSON(data)' % KIND_NAMES[int(f[1])], 'data': unbs(f[2])},
                    {'result': f[3] if f[3] in ('err', 'panic') else undt(f[3])})
        if k == 'C':
            return ({'call': 'To%s(ctx)' % TARGETS[int(f[1])][1:], 'zone': f[2], 'value': undt(f[3])}, {'result': undt(f[4])})
        if k == 'X':
            return ({'call': '$[0] < == > $[1] on stored values', 'options': ['WithTZ'] if f[1] == '1' else [], 'zone': f[2],
                     'a': undt(f[3]), 'b': undt(f[4])}, {'result': f[5], 'legend': '-1 0 1; 2 = null; 3 = time zone required'})
        if k == 'Q':
            return ({'call': '$[0].datetime() < == > $[1].datetime()', 'options': ['WithTZ'] if f[1] == '1' else [], 'zone': f[2],
                     'doc': [unbs(f[3]), unbs(f[4])]}, {'result': f[5], 'legend': '-1 0 1; 2 = null; 3 = time zone required'})
        if k == 'E':
            return ({'call': '$.%s(%s)' % (METHODS[int(f[1])], '' if f[2] == 'n' else f[2]), 'options': ['WithTZ'] if f[3] == '1' else [],
                     'zone': f[4], 'doc': unbs(f[5])}, {'result': f[6] if ':' not in f[6] else undt(f[6])})
    except (ValueError, IndexError):
        pass
    return ({'vector': line}, {})


def vec_input_key(line):
    """the input part of a vector line (what `dtvec revec` reads)"""
    f = line.split('|')
    n = {'P': 4, 'R': 4, 'S': 2, 'U': 3, 'C': 4, 'X': 5, 'Q': 5, 'E': 6}.get(f[0], len(f))
    return '|'.join(f[:n])


def nontrivial(line):
    """is the vector's input accepted by at least one layout (it denotes a datetime)?"""
    f = line.split('|')
    k = f[0]
    if k in ('P', 'R'):
        return f[4] not in ('-', 'panic')
    if k == 'U':
        return f[3] not in ('err', 'panic')
    if k == 'E':
        return f[6] not in ('notrec', 'bad')
    return True


def in_family(prop, line):
    f = line.split('|')
    if f[0] not in FAMILIES[prop]:
        return False
    if prop == 'C18' and f[0] == 'C':
        src = f[3].split(':')[0]
        return (src, f[1]) in (('0', '4'), ('4', '0'), ('3', '4'), ('4', '3'))
    return True


def prelude_text(header_lines):
    out = [PRELUDE]
    now = loff = None
    ids = []
    for l in header_lines:
        f = l.split('|')
        if f[0] == 'N':
            now, loff = f[1], f[2]
        elif f[0] == 'ZF':
            out.append('Definition z_%s : zone := ZFixed %s.' % (f[1], num(f[2])))
            ids.append(f[1])
        elif f[0] == 'ZT':
            tr = []
            for t in f[3].split(','):
                if t:
                    a, b = t.split(':')
                    tr.append('(%s, %s)' % (num(a), num(b)))
            out.append('Definition z_%s : zone := ZTable %s [%s].' % (f[1], num(f[2]), '; '.join(tr)))
            ids.append(f[1])
    for i in ids:
        out.append('Definition c_%s : dctx := mkctx z_%s %s %s.' % (i, i, num(now), num(loff)))
    return '\n'.join(out) + '\n'


def coqc(args, cwd, timeout=900):
    return sh(['coqc', '-noglob', '-Q', os.path.join(ROOT, 'coq'), 'SJ', '-Q', '.', 'DTV'] + args, cwd=cwd, timeout=timeout)


def run_coq(prop, header, vecs, shard_size, log, tag='coq'):
    """vecs: list of (id, line).  Returns (failed ids, error text or None, wall seconds)"""
    t0 = time.time()
    cd = os.path.join(BUILD, prop, tag)
    shutil.rmtree(cd, ignore_errors=True)
    os.makedirs(cd, exist_ok=True)
    with open(os.path.join(cd, 'Prelude.v'), 'w') as f:
        f.write(prelude_text(header))
    rc, out, err = coqc(['Prelude.v'], cd)
    if rc != 0:
        return [], 'Prelude.v (zone tables + comparison functions over coq/model/DateTime.v) does not compile: ' + (out + err)[-800:], time.time() - t0
    shards = []
    for i in range(0, len(vecs), shard_size):
        name = 'Shard_%03d' % (i // shard_size)
        part = vecs[i:i + shard_size]
        with open(os.path.join(cd, name + '.v'), 'w') as f:
            f.write('(* generated by bin/dtcheck.py - do not edit *)\n'
                    'From SJ Require Import lib.Base model.Json model.GoTime model.DateTime.\n'
                    'From DTV Require Import Prelude.\nOpen Scope Z_scope.\n'
                    'Definition vecs : list (Z * bool) := [\n')
            f.write(';\n'.join('  (%d, %s)' % (vid, coq_terms(line)[0]) for vid, line in part))
            f.write('\n].\nDefinition failed : list Z := Eval vm_compute in failed_of vecs.\nPrint failed.\n')
        shards.append((name, part))

    def one(sp):
        name, part = sp
        rc, out, err = coqc([name + '.v'], cd)
        with open(os.path.join(cd, name + '.log'), 'w') as f:
            f.write(out + err)
        m = re.search(r'failed\s*=\s*\[([^\]]*)\]', out)
        if rc != 0 or not m:
            return name, None, (out + err)[-600:]
        ids = [int(x.strip().strip('()')) for x in m.group(1).replace('\n', ' ').split(';') if x.strip()]
        return name, ids, None

    failed, errors = [], []
    with concurrent.futures.ThreadPoolExecutor(max_workers=NPROC) as ex:
        for name, ids, e in ex.map(one, shards):
            if e is not None:
                errors.append('%s: %s' % (name, e))
            else:
                failed += ids
    wall = time.time() - t0
    log.append('coq tie: %d vectors in %d shards, %d disagree, %d shard errors, %.1fs' % (len(vecs), len(shards), len(failed), len(errors), wall))
    return sorted(failed), ('; '.join(errors[:3]) if errors else None), wall


def model_outputs(prop, header, lines, log):
    """evaluate the model on the given vector lines; returns list of printed Coq terms (or None)"""
    cd = os.path.join(BUILD, prop, 'diag')
    shutil.rmtree(cd, ignore_errors=True)
    os.makedirs(cd, exist_ok=True)
    with open(os.path.join(cd, 'Prelude.v'), 'w') as f:
        f.write(prelude_text(header))
    rc, out, err = coqc(['Prelude.v'], cd)
    if rc != 0:
        return [None] * len(lines)
    res = []
    with open(os.path.join(cd, 'Diag.v'), 'w') as f:
        f.write('From SJ Require Import lib.Base model.Json model.GoTime model.DateTime.\nFrom DTV Require Import Prelude.\nOpen Scope Z_scope.\n')
        for i, l in enumerate(lines):
            m = coq_terms(l)[1]
            f.write('Definition mark_%d := tt.\nPrint mark_%d.\n' % (i, i))
            if m:
                f.write('Eval vm_compute in (%s).\n' % m)
    rc, out, err = coqc(['Diag.v'], cd, timeout=300)
    for i in range(len(lines)):
        m = re.search(r'mark_%d = tt\s*\n\s*: unit\s*\n(.*?)(?=mark_%d = tt|\Z)' % (i, i + 1), out, flags=re.S)
        txt = m.group(1).strip() if m else ''
        txt = re.sub(r'\s+', ' ', txt)
        res.append(txt[2:].strip() if txt.startswith('= ') else (txt or None))
    return res


# ---------------------------------------------------------------------------
# the legs
# ---------------------------------------------------------------------------
def tie_leg(prop, tier, seed, binp, log):
    cfg = TIERS[tier]
    T = {'ok': True, 'problems': [], 'vectors': 0, 'distinct': 0, 'nontrivial': 0, 'disagreements': [], 'hist': {}, 'samples': [],
         'generated': 0, 'wall_s': 0.0}
    base = os.path.join(BUILD, prop)
    vpath = os.path.join(base, 'vectors.txt')
    t0 = time.time()
    with open(vpath, 'wb') as f:
        try:
            r = subprocess.run([binp, 'vectors', '-seed', str(seed), '-extra', str(cfg['extra'])], stdout=f, stderr=subprocess.PIPE,
                               env=checklib.ENV, timeout=1800)
            rc, err = r.returncode, r.stderr.decode('utf-8', 'replace')
        except subprocess.TimeoutExpired:
            rc, err = 124, 'timeout'
    log.append('dtvec vectors: rc=%d %.1fs %s' % (rc, time.time() - t0, err.strip().splitlines()[-1:] if err else ''))
    if rc != 0:
        T['ok'] = False
        T['problems'].append('the vector generator failed on the current tree (rc=%d): %s' % (rc, err[-800:]))
        return T
    with open(vpath, errors='surrogateescape') as f:
        lines = f.read().splitlines()
    header = [l for l in lines if l.split('|')[0] in ('N', 'ZF', 'ZT')]
    fam = []
    seen = set()
    for i, l in enumerate(lines):
        if l.split('|')[0] in ('N', 'ZF', 'ZT'):
            continue
        T['generated'] += 1
        if not in_family(prop, l) or l in seen:
            continue
        seen.add(l)
        fam.append((i + 1, l))
    rng = random.Random(seed)
    if cfg['sample'] and len(fam) > cfg['sample']:
        fam = sorted(rng.sample(fam, cfg['sample']))
    T['vectors'] = len(fam)
    T['distinct'] = len(fam)
    T['nontrivial'] = sum(1 for _, l in fam if nontrivial(l))
    hist = {'kinds': {}, 'zones': {}, 'precisions': {}, 'error_kinds': {}}
    for _, l in fam:
        f = l.split('|')
        hist['kinds'][f[0]] = hist['kinds'].get(f[0], 0) + 1
        z = {'P': 1, 'R': 1, 'C': 2, 'X': 2, 'Q': 2, 'E': 4}.get(f[0])
        if z is not None:
            hist['zones'][f[z]] = hist['zones'].get(f[z], 0) + 1
        p = {'P': 2, 'R': 2, 'E': 2}.get(f[0])
        if p is not None:
            hist['precisions'][f[p]] = hist['precisions'].get(f[p], 0) + 1
        res = f[-1] if f[0] in ('U', 'X', 'Q', 'E') else (f[4] if f[0] in ('P', 'R') else '')
        ek = {'-': 'not-parsed', 'err': 'unmarshal-error', 'panic': 'panic', 'notrec': 'format-not-recognized', 'tzreq': 'tz-required',
              'badprec': 'bad-precision', 'bad': 'inconsistent'}.get(res)
        if f[0] in ('X', 'Q'):
            ek = {'2': 'incomparable(null)', '3': 'tz-required'}.get(res)
        if ek:
            hist['error_kinds'][ek] = hist['error_kinds'].get(ek, 0) + 1
    T['hist'] = hist
    failed, err, wall = run_coq(prop, header, fam, cfg['shard'], log)
    T['wall_s'] = round(wall, 1)
    if err:
        T['ok'] = False
        T['problems'].append('Coq shards did not evaluate: ' + err)
    byid = dict(fam)
    bad_lines = [byid[i] for i in failed if i in byid]
    # samples: model output next to the implementation's, for a few vectors (and for the first disagreements)
    pick = []
    kinds_seen = set()
    for _, l in rng.sample(fam, min(len(fam), 400)):
        if l[0] not in kinds_seen and nontrivial(l):
            kinds_seen.add(l[0])
            pick.append(l)
    diag = bad_lines[:5] + pick
    outs = model_outputs(prop, header, diag, log) if diag else []
    for l, mo in zip(diag, outs):
        inp, impl = describe(l)
        rec = {'vector': l if len(l) < 400 else l[:400] + '...', 'input': inp, 'implementation': impl, 'model': mo,
               'agree': l not in bad_lines}
        if l in bad_lines:
            T['disagreements'].append(rec)
        else:
            T['samples'].append(rec)
    for l in bad_lines[5:50]:
        inp, impl = describe(l)
        T['disagreements'].append({'vector': l[:400], 'input': inp, 'implementation': impl, 'model': None, 'agree': False})
    T['n_disagreements'] = len(bad_lines)
    if bad_lines:
        T['ok'] = False
        T['problems'].append('%d of %d vectors: coq/model/DateTime.v and the implementation differ' % (len(bad_lines), len(fam)))
    return T


def search_leg(prop, tier, seed, binp, log, replay_file=None, tzenv=None):
    S = {'ok': True, 'problems': [], 'fails': [], 'stat': {}, 'hist': {}, 'samples': [], 'wall_s': 0.0}
    t0 = time.time()
    env = dict(checklib.ENV)
    if tzenv:
        env['TZ'] = tzenv
    if replay_file:
        cmd = [binp, 'replay', '-file', replay_file]
    else:
        cmd = [binp, 'props', '-prop', prop, '-tier', tier, '-seed', str(seed)]
        corpus = os.path.join(ROOT, 'corpus', prop + '.jsonl')
        if os.path.exists(corpus):
            cmd += ['-corpus', corpus]
    rc, out, err = sh(cmd, timeout=7200, env=env)
    S['wall_s'] = round(time.time() - t0, 1)
    log.append('dtvec %s%s: rc=%d %.1fs' % (' '.join(cmd[1:4]), ' TZ=' + tzenv if tzenv else '', rc, S['wall_s']))
    if rc != 0:
        S['ok'] = False
        S['problems'].append('the property harness failed on the current tree (rc=%d): %s' % (rc, err[-800:]))
    for l in out.splitlines():
        try:
            d = json.loads(l)
        except ValueError:
            continue
        t = d.get('t')
        if t == 'fail':
            if tzenv:
                d.setdefault('input', {})['process_TZ'] = tzenv
            S['fails'].append(d)
        elif t == 'stat':
            S['stat'] = d
        elif t == 'hist':
            S['hist'][d['name']] = d['counts']
        elif t == 'sample':
            S['samples'].append({k: d[k] for k in ('check', 'input', 'observed') if k in d})
    if not S['stat'] and rc == 0:
        S['ok'] = False
        S['problems'].append('the property harness printed no summary')
    return S


def known_classes(prop):
    return {f['class']: f for f in checklib.load_findings()
            if f.get('status') == 'open' and prop in f.get('properties', []) and 'class' in f}


def safe_proof_leg(prop, log):
    empty = {'ok': False, 'problems': [], 'obligations': 0, 'discharged': 0, 'theorems': [], 'axioms': [], 'checker_cmd': ''}
    try:
        err = checklib.ensure_setup(log)
        if err:
            empty['problems'].append('setup failed: ' + err)
            return empty
        return checklib.proof_leg(prop, log)
    except Exception as e:  # noqa: BLE001
        empty['problems'].append('proof leg crashed: %r' % (e,))
        return empty


def merge_counts(a, b):
    for k, v in b.items():
        if isinstance(v, dict):
            merge_counts(a.setdefault(k, {}), v)
        else:
            a[k] = a.get(k, 0) + v
    return a


def compact(o, n=300):
    s = json.dumps(o, sort_keys=True, ensure_ascii=False)
    return s if len(s) <= n else s[:n] + '...'


def write_evidence(prop, tier, seed, P, T, Ss, seen_known, not_reproduced, violations, rc, t_start, log, mode):
    S_stat = {'evaluations': 0, 'distinct_nontrivial': 0, 'queries': 0}
    S_hist, S_samples, S_failcounts = {}, [], {}
    for S in Ss:
        for k in S_stat:
            S_stat[k] += int(S.get('stat', {}).get(k, 0))
        merge_counts(S_hist, S.get('hist', {}))
        merge_counts(S_failcounts, S.get('stat', {}).get('fail_counts', {}) or {})
        S_samples += S.get('samples', [])
    tb = checklib.trusted_base(prop, P)
    tb = [t for t in tb if not t.startswith('extraction:') and 'harness/*.go' not in t and 'ExecLib oracle' not in t]
    tb += [
        'time zone database of the installed Go; named zones enter the model as transition tables exported by the harness',
        'tools/dtvec (Go): grid and random generators, encoding of values as kind:sec:nsec:off, classification of errors by message; '
        'bin/dtcheck.py: translation of vector lines into Coq terms',
        'the datetime model (coq/model/{Civil,GoTime,DateTime}.v) is written by hand and tied to the code only on the vectors of this run; '
        'the Coq side is evaluated with vm_compute inside coqc (no extraction)',
    ]
    obligations = max(int(P.get('obligations', 0)), 0) + 1  # + the correspondence obligation (all sampled vectors agree)
    discharged = int(P.get('discharged', 0)) + (1 if T.get('ok') else 0)
    cov = {
        'obligations': obligations,
        'discharged': discharged,
        'checker_cmd': (P.get('checker_cmd') or 'bin/gen-tables && (cd coq && make -j16) && coqc -Q coq SJ coq/props/%s.v' % prop)
        + ' ; tie: (cd build/dtvec/%s/go && go build) && dtvec vectors | bin/dtcheck.py -> coqc -Q coq SJ -Q . DTV build/dtvec/%s/coq/Shard_*.v' % (prop, prop),
        'trusted_base': tb,
        'theorems': P.get('theorems', []),
        'axioms_reported_by_print_assumptions': P.get('axioms', []),
        'proof_leg_problems': P.get('problems', []),
        'evaluations': int(T.get('vectors', 0)) + S_stat['evaluations'],
        'distinct_nontrivial': int(T.get('nontrivial', 0)) + S_stat['distinct_nontrivial'],
        'rule': 'tie leg: vectors are printed by tools/dtvec running the real path/types and path/exec code of %s over a fixed grid plus '
                'pseudo-random extras (seed = VERIF_SEED), restricted to the families %s%s; identical lines are dropped, a vector is non-trivial '
                'when its input is accepted by at least one layout (ParseTime / UnmarshalJSON / the method returned a value, or the vector is about '
                'stored values). search leg: property checks enumerated over deduplicated grids (every tuple visited once), non-trivial when at '
                'least one datetime string of the input is accepted by a layout; counted by the Go program' % (
                    repo(), sorted(FAMILIES[prop]), '' if TIERS[tier]['sample'] is None else ', of which %d are sampled with the seeded PRNG' % TIERS[tier]['sample']),
        'samples': (T.get('samples', [])[:6] + S_samples[:10]) or [{'note': 'no case ran: ' + '; '.join(T.get('problems', []) + sum((S.get('problems', []) for S in Ss), []))[:300]}],
        'tie_vectors': T.get('vectors', 0),
        'tie_vectors_generated_all_families': T.get('generated', 0),
        'tie_vectors_nontrivial': T.get('nontrivial', 0),
        'tie_wall_s': T.get('wall_s', 0),
        'disagreements_checked': T.get('vectors', 0),
        'disagreements': T.get('disagreements', [])[:20],
        'model_vs_impl_disagreements': T.get('n_disagreements', 0),
        'tie_problems': T.get('problems', []),
        'search_property_checks': S_stat['evaluations'],
        'search_queries_run': S_stat['queries'],
        'search_fail_counts': S_failcounts,
        'search_problems': sum((S.get('problems', []) for S in Ss), []),
        'search_wall_s': [S.get('wall_s', 0) for S in Ss],
        'histograms': {'tie': T.get('hist', {}), 'search': S_hist},
        'known_findings_seen': sorted(seen_known),
        'known_findings_not_reproduced': not_reproduced,
        'mode': mode,
        'repository': repo(),
        'explanation': 'P: Coq development rebuilt, props/%s.v compiled and Print Assumptions audited; T: Gallina datetime model vs the '
                       'implementation on vectors (vm_compute); S: the property evaluated on the implementation\'s outputs' % prop,
        'cannot_see': CANNOT_SEE[prop],
    }
    ev = {
        'property_id': prop, 'tier': tier, 'seed': seed, 'level': 'proof', 'coverage': cov,
        'assumptions': [
            'the implementation is observed through its public API only (types.ParseTime, String, MarshalJSON/UnmarshalJSON, To*, path.Parse + Query)',
            'errors are compared by class (errors.Is ErrExecution / ErrVerbose / ErrInvalid and the fixed message stems), never by full text',
            'the model represents a stored value as (kind, Unix seconds, nanoseconds, offset); the *time.Location pointer identity is not observed',
        ],
        'wall_s': round(time.time() - t_start, 2),
        'violations': 0 if rc == 0 else max(1, len(violations)),
        'log': log,
    }
    if cov['discharged'] < 1:
        # the schema reads the key `discharged` as a proof-level claim (>= 1); nothing was discharged in this run
        cov['discharged_in_this_run'] = cov.pop('discharged')
    os.makedirs(os.path.join(ROOT, 'evidence'), exist_ok=True)
    with open(os.path.join(ROOT, 'evidence', prop + '.json'), 'w') as f:
        json.dump(ev, f, indent=1, ensure_ascii=False)


def revec_check(prop, binp, vector_inputs, log):
    """recompute the given vectors on the current tree and compare with the model; returns (bad records, error)"""
    base = os.path.join(BUILD, prop)
    os.makedirs(base, exist_ok=True)
    inp = os.path.join(base, 'replay_inputs.txt')
    with open(inp, 'w') as f:
        f.write('\n'.join(vector_inputs) + '\n')
    rc, out, err = sh([binp, 'revec', '-file', inp], timeout=600)
    if rc != 0:
        return [], 'dtvec revec failed: ' + err[-600:]
    lines = out.splitlines()
    header = [l for l in lines if l.split('|')[0] in ('N', 'ZF', 'ZT')]
    vecs = [(i + 1, l) for i, l in enumerate(lines) if l.split('|')[0] not in ('N', 'ZF', 'ZT')]
    if not vecs:
        return [], 'dtvec revec produced no vector for %r' % vector_inputs
    failed, e, _ = run_coq(prop, header, vecs, 500, log, tag='replay')
    if e:
        return [], e
    byid = dict(vecs)
    bad = [byid[i] for i in failed]
    outs = model_outputs(prop, header, bad[:5], log) if bad else []
    recs = []
    for l, mo in zip(bad, outs):
        a, b = describe(l)
        recs.append({'vector': l, 'input': a, 'implementation': b, 'model': mo})
    return recs, None


def run(prop, tier, seed, replay):
    t_start = time.time()
    log = []
    if tier not in TIERS:
        tier = 'quick'
    os.makedirs(os.path.join(BUILD, prop), exist_ok=True)
    known = known_classes(prop)

    # ---- P leg
    P = safe_proof_leg(prop, log)
    log.append('proof leg: ok=%s %.1fs %s' % (P['ok'], time.time() - t_start, P['problems'][:2]))

    # ---- the tool
    binp, berr = build_tool(prop, log)

    T = {'ok': True, 'problems': [], 'vectors': 0, 'nontrivial': 0, 'disagreements': [], 'samples': [], 'hist': {}}
    Ss = []
    mode = 'replay' if replay else 'search'
    rp = None
    if berr:
        T['ok'] = False
        T['problems'].append(berr)
    elif replay:
        with open(replay) as f:
            rp = json.load(f)
        if rp.get('check'):
            Ss.append(search_leg(prop, tier, seed, binp, log, replay_file=replay, tzenv=(rp.get('input') or {}).get('process_TZ')))
        vin = rp.get('vector_inputs') or []
        if vin:
            bad, e = revec_check(prop, binp, vin, log)
            T['vectors'] = len(vin)
            T['nontrivial'] = len(vin)
            if e:
                T['ok'] = False
                T['problems'].append(e)
            if bad:
                T['ok'] = False
                T['disagreements'] = bad
                T['n_disagreements'] = len(bad)
                T['problems'].append('%d of %d replayed vectors: model and implementation differ' % (len(bad), len(vin)))
            else:
                T['samples'] = [{'vector_input': v, 'agree': True} for v in vin[:3]]
    else:
        T = tie_leg(prop, tier, seed, binp, log)
        Ss.append(search_leg(prop, tier, seed, binp, log))
        if tier == 'thorough':
            # the same search with another process-local zone (time.Parse resolves offsets against time.Local)
            Ss.append(search_leg(prop, tier, seed + 1, binp, log, tzenv='America/New_York'))

    # ---- classify
    violations, seen_known = [], {}
    for S in Ss:
        for d in S['fails']:
            cls = d.get('class', 'NONE')
            if cls in known:
                seen_known.setdefault(cls, d)
            else:
                violations.append(d)
    s_broken = [p for S in Ss for p in S['problems']]
    not_reproduced = [f['id'] for c, f in sorted(known.items()) if c not in seen_known] if not replay else []

    for cls, d in sorted(seen_known.items()):
        f = known[cls]
        print('KNOWN-FINDING: property=%s %s: %s (witness: %s)' % (prop, f['id'], f['what'], compact(d.get('input'), 400)))
    if not_reproduced:
        print('note: listed findings not reproduced in this run: %s' % ', '.join(not_reproduced))

    rc, replay_path, no_input = 0, None, False
    if violations:
        order = {'c17.notz-cast': 0, 'c17.cast-coherence': 1, 'c17.precision': 1, 'c18.hostile': 0, 'c18.roundtrip': 1}
        v = sorted(violations, key=lambda d: (order.get(d.get('check'), 5), len(json.dumps(d.get('input')))))[0]
        payload = {
            'property': prop, 'kind': 'failing-input', 'leg': 'S (property evaluated on the implementation)', 'seed': seed, 'tier': tier,
            'check': v.get('check'), 'class': v.get('class'), 'input': v.get('input'), 'expected': v.get('expected'), 'observed': v.get('observed'),
            'other_failures': {k: n for S in Ss for k, n in (S.get('stat', {}).get('fail_counts') or {}).items()},
            'tie_disagreements': T.get('n_disagreements', 0),
            'repository': repo(),
            'how_to_replay': 'bin/check %s --replay <this file>' % prop,
        }
        replay_path = os.path.abspath(replay) if replay else checklib.write_replay(prop, 'failing-input', payload)
        rc = 1
    elif not P['ok'] or not T['ok'] or s_broken:
        what = []
        if not P['ok']:
            what.append({'proof_obligations': P['problems'], 'theorems': P.get('theorems', [])})
        vin = []
        first = None
        if not T['ok']:
            dis = T.get('disagreements', [])
            first = dis[0] if dis else None
            vin = [vec_input_key(d['vector']) for d in dis[:5] if d.get('vector') and not d['vector'].endswith('...')]
            what.append({'correspondence': 'coq/model/DateTime.v (parse_time, dt_string, dt_marshal_json, dt_unmarshal_json, dt_to_*, '
                                           'compare_datetime, exec_datetime_method) vs path/types + path/exec/datetime.go',
                         'problems': T['problems'], 'disagreements': T.get('n_disagreements', 0), 'first': first})
        if s_broken:
            what.append({'search_harness': s_broken})
        payload = {
            'property': prop, 'kind': 'unchecked-obligation', 'seed': seed, 'tier': tier,
            'no_longer_checks': what,
            'note': 'the property is no longer shown to hold: a proof obligation or the model-implementation correspondence is broken; '
                    'the search leg found no input on which the property itself fails',
            'vector_inputs': vin,
            'input': (first or {}).get('input', {}),
            'expected': {'model': (first or {}).get('model')},
            'observed': {'implementation': (first or {}).get('implementation')},
            'repository': repo(),
            'how_to_replay': 'bin/check %s --replay <this file>' % prop,
        }
        replay_path = os.path.abspath(replay) if replay else checklib.write_replay(prop, 'unchecked-obligation', payload)
        rc, no_input = 1, True
    if rc:
        print('VIOLATION property=%s replay=%s%s' % (prop, replay_path, ' no-failing-input-found' if no_input else ''))

    write_evidence(prop, tier, seed, P, T, Ss, seen_known, not_reproduced, violations, rc, t_start, log, mode)
    return rc
