#!/usr/bin/env python3
"""Regenerate /verif/MANIFEST.json from the table below (kept in one place so that the
claims, the level notes and the commands stay consistent)."""
import json, os, subprocess

ROOT = os.path.dirname(os.path.dirname(os.path.abspath(__file__)))

COMMON_NOTE = ("Trusted base: Coq 8.16.1 kernel incl. vm_compute (no native_compute); no axioms declared; "
               "extraction with ExtrOcamlBasic + ExtrOcamlString only; the hand-written model is tied to /repo by the "
               "correspondence check on sampled inputs (harness + extracted model), not derived from the source; "
               "translators tools/tables regenerate coq/gen/*.v from /repo on every run; Go standard-library behaviour "
               "(strconv, math, time, regexp, map order) enters through oracle records with stated laws. ")

CHECKS = {
 'C01': dict(
    text="Refinement theorem (proofs/Refine*.v, by induction on fuel and path, all node kinds except .keyvalue()): the executor model's "
         "Query returns exactly the projection of the trace that the specification spec/Sem.v assigns to (path, document, options). "
         "The model is tied to the implementation by the correspondence leg (extracted model vs /repo on generated paths x documents x options, "
         "all five entry points, silent and verbose) and the specification is additionally compared with the implementation directly. "
         "A theorem is the right level because the property quantifies over path programs x documents.",
    note="Specification spec/Sem.v is trusted to express the documented rules (validated against the implementation on every run; deviations are the listed known findings). "
         "Excluded from the theorem: .keyvalue() (ids depend on heap identity), exists(e) with e ending in unary +/- (KF-C06-unary-exists); the spec is taken with the two pinned quirks "
         "(KF-C14-null-subscript, KF-C11-isunknown-hard-error). Object-member order fixed to list order in the spec; compared as multisets on the implementation.",
    technique="Coq refinement proof (model refines trace semantics) + differential correspondence of the extracted model and spec against the implementation"),
 'C02': dict(
    text="Theorems over the Coq model of lexer, reference parser and printer (model/Lexer.v, Parser.v, Printer.v): round trip parse(print p) = p on the proved class, "
         "quote/scan_string inverse for all strings, refutations for the excluded classes; the model is tied to goyacc parser + printer by a differential test "
         "(trees, String(), wrappers); the property itself is evaluated on the implementation (Parse(String()) tree/flags/String fixed point/marshalling pairs/results).",
    note="The goyacc LALR tables are represented by a reference parser (tied by sampling, not translated). Known findings: operator nodes carrying an accessor chain print without parentheses; "
         "integral-valued numerics print as integers (both pinned by ast_test.go). See props/C02.v header for what is _partial.",
    technique="Coq proofs on a parser/printer model + differential test of the extracted model + round-trip search on the implementation"),
 'C03': dict(
    text="Theorems over the lexer/parser model: token independence (a token's value does not depend on its continuation, end of input included) for operators, keywords, numbers, "
         "strings and identifiers as far as proved (see props/C03.v), keyword case-insensitivity tied to the keyword table regenerated from lex.go; the model is tied to the code by "
         "the differential test; spellings of abstract paths are compared on the implementation.",
    note="Unicode tables of the installed Go enter as generated tables (gen/Unicode.v). Known finding: Unicode-aware keyword lower-casing (U+212A, U+0130).",
    technique="Coq proofs on a lexer/parser model + differential test + spelling-equivalence search on the implementation"),
 'C04': dict(
    text="parse_total / lex_total: the model's Parse returns a path or an error for EVERY byte string (explicit fuel bound, no panic reachable); accepted paths satisfy the "
         "well-formedness predicate as far as proved (props/C04.v); wrappers (MustParse, Scan, Unmarshal*) are modelled as the delegations they are. Tie: differential test incl. malformed streams; "
         "search: byte-level fuzz of the implementation with recover() and a watchdog.",
    note="'every accepted like_regex compiles at execution time' relates two entry points of Go's regexp package: an oracle law, exercised by executing every accepted pattern.",
    technique="Coq totality proof on a lexer/parser model + differential test + byte-level fuzzing of the implementation"),
 'C05': dict(
    text="Totality theorems over the executor model for all paths x values x option sets x cancellation points: explicit fuel bound (termination argument by a lexicographic measure), "
         "no Panic, monotonicity in fuel, ErrInvalid never returned for parser-image paths without datetime methods, NULL only from Exists/Match. Purity, finiteness of returned numbers and "
         "provenance of containers are established on the implementation by the correspondence leg (deep snapshot before/after, scans of results).",
    note="Hypotheses: map iteration yields members of the map; json.Number texts parse. Known findings: ErrInvalid for datetime vs non-datetime comparison (pinned), +Inf from float overflow, NaN from .decimal(1000,1000), int64 wrap.",
    technique="Coq termination/no-panic/classification proofs on the executor model + correspondence + result scans on the implementation"),
 'C06': dict(
    text="All five entry points of the model are proved to be projections of one trace (first/match/exists/eom_is_trace), and the clauses of the property are lemmas about the projections; "
         "on the implementation the relations between Query, First, Exists, Match, ExistsOrMatch are checked directly on every generated case.",
    note="Excluded: lax paths ending in unary +/- (KF-C06-unary-exists, inherited from PostgreSQL).",
    technique="Coq refinement proof for all entry points + relational oracle on the implementation's five results"),
 'C07': dict(
    text="Theorems on the specification: lax accessor/filter paths never fail; strict failures are suppressible and occur exactly when the evaluation meets a mismatch (iff, filter-free fragment); "
         "one-level unwrapping; position independence; transferred to the model by the refinement theorem and tied to the implementation by the correspondence leg on documents with the offending element at every position.",
    note="Literal subscripts must be within int32 and last+k must not overflow (counterexamples in props/C07.v).",
    technique="Coq proofs on the trace semantics + refinement + structured differential testing"),
 'C08': dict(
    text="Invariant over the executor model (quiet_run): with verbose off no suppressible error object leaves any call, predicates never return one; Frame lemma: verbose is restored after every call; "
         "silent and verbose runs are projections of the same trace (refinement), so success is unchanged, suppressible failures yield the items before the failure / NULL, hard errors are unchanged. "
         "The raise-site inventory regenerated from /repo pins the class of every error construction.",
    note="Known finding: is unknown swallows hard errors (pinned).",
    technique="Coq invariant proofs (quiet, frame) + refinement + silent-vs-verbose relational oracle on the implementation + raise-site table"),
 'C09': dict(
    text="Compositionality theorems on the specification (sem_chain (P ++ S) = bind; root/@/last independence of closed suffixes; variable/literal starts) and the Frame lemma for the model "
         "(every call returns with @, last, $, ignore-flag, verbose, base object restored); on the implementation: Query(P S) vs concatenation of Query($ S, x) over Query(P) for generated splits.",
    note="Steps after .** in strict mode excluded as the property says (counterexample in props/C09.v).",
    technique="Coq proofs (composition on the semantics, frame invariant on the model) + three-run relational oracle on the implementation"),
 'C10': dict(
    text="Filter theorems on the specification: P ?(C) is the order-preserving subsequence of candidates whose condition is true; false/unknown (incl. suppressible errors in C) drop without aborting; "
         "kept iff the predicate check C[@:=$] is true (substitution lemma); strict consecutive filters fuse; transferred by refinement; on the implementation: filter vs per-item predicate checks.",
    note="Fusion needs hard-error-free conditions and strict mode (counterexamples in props/C10.v).",
    technique="Coq proofs on the trace semantics + refinement + filter-vs-predicate relational oracle"),
 'C11': dict(
    text="Kleene theorems on sem_pred for arbitrary operand predicates (tables with hard errors, commutativity in value, double negation, De Morgan, is unknown never unknown, exists); "
         "on the implementation: truth tables with operand outcomes T/F/U/hard error for every connective, inside and outside filters.",
    note="Known finding: is unknown turns a hard error into true (pinned by boolean_test.go).",
    technique="Coq proofs on the predicate semantics + truth-table oracle on the implementation"),
 'C12': dict(
    text="Order theorems on compareItems per type (trichotomy, duality, unions, transitivity; null rules; cross-type/container unknown), sequence-level characterisation of the pairwise loop, "
         "starts with = prefix; on the implementation: order axioms checked over the full table of pairs and triples of a value corpus in all numeric representations.",
    note="Known finding: mixed int64/float64/json.Number comparison goes through float64 (not transitive beyond 2^53). like_regex matching is an oracle (Go regexp).",
    technique="Coq proofs on the comparison kernel + exhaustive pair/triple axioms on the implementation"),
 'C13': dict(
    text="Arithmetic theorems on executeIntegerMath/execMathOp (exact when it fits, truncating division, zero divisors are suppressible errors in every pairing, commutativity, involution of negation, "
         "the only wrong integers are overflows) and an independent exact specification (spec/ArithSpec.v) used as oracle on a boundary grid in three representations.",
    note="Known findings: int64 wrap-around; +Inf from float overflow.",
    technique="Coq proofs on the arithmetic kernel + exact-arithmetic oracle on the implementation"),
 'C14': dict(
    text="Subscript theorems on the specification (selection by firstn/skipn for literal, fractional, last, last±k bounds; lax clipping; strict out-of-bounds exactly when; errors in both modes; "
         "last denotes the innermost array), transferred by refinement; exhaustive small-scope correspondence (arrays of length 0..3 over an alphabet with null, nested arrays, objects x bounds grid).",
    note="Known finding: selected JSON null elements are dropped (pinned by array_test.go skip_nil); both the documented rule and the code's behaviour are stated.",
    technique="Coq proofs on the subscript semantics + refinement + exhaustive small-scope differential testing"),
 'C15': dict(
    text="Descent theorems: .**{a to b} = nodes at depth a..b in pre-order, each position exactly once (NoDup/complete over positions), .**{k} = k-fold children, .**{last} = scalar leaves, "
         ".* and [*]; strict member accessors after .** skip; exhaustive correspondence over all JSON trees up to a node bound x level bounds.",
    note="Object member order fixed to list order in the spec.",
    technique="Coq proofs by induction on the JSON value + exhaustive small-scope differential testing"),
 'C16': dict(
    text="Theorems on the leaf functions of the item methods (accepted kinds, suppressible rejection, ranges of .integer()/.bigint()/.double(), boolean table, decimal validation, string round trips) "
         "shared by model and spec; on the implementation: range/round-trip/keyvalue-id oracles over a boundary grid in float64, json.Number and string form.",
    note="Known findings: .decimal counts no zeros, .decimal(1000,1000) -> NaN, ids of keyvalue-generated objects are unstable. Shortest-float round trip is an oracle law validated on vectors.",
    technique="Coq proofs on leaf functions + range and round-trip oracles on the implementation"),
 'C17': dict(
    text="Theorems on the datetime model (cast and comparison time-zone guards over all values, antisymmetry, transitivity for fixed zones, cast coherence, precision rounding) tied to the code by "
         "vector correspondence (types.ParseTime, casts, comparisons through paths) and order/cast-coherence oracles on the implementation.",
    note="Named zones enter as transition tables exported from the installed tz database. Known finding: DST gaps break order preservation of the cast.",
    technique="Coq proofs on a time/calendar model + vector correspondence evaluated in Coq + relational oracles"),
 'C18': dict(
    text="Round-trip theorems (String/ParseTime, MarshalJSON/UnmarshalJSON) through a model of Go's time layouts, UnmarshalJSON total on all byte strings (bounds checks modelled), "
         "date/timestamp -> timestamptz -> back identities; vector correspondence and hostile-input fuzzing of the five UnmarshalJSON methods.",
    note="Years 0..9999 and whole-minute offsets as the property states.",
    technique="Coq proofs on a time-format model + vector correspondence + hostile-input fuzzing"),
 'C19': dict(
    text="Abstract non-interference theorem (steps read shared state, write private state => every schedule returns what the call returns alone; history independence) whose hypothesis is tied to the code by an "
         "SSA effect inventory regenerated from /repo and checked by vm_compute; supporting -race stress run compares concurrent with isolated results.",
    note="PARTIAL by nature: goroutine interleavings, the Go memory model, regexp's internal pools and time.Now are outside any executable model; the race run is supporting evidence, not proof.",
    technique="Coq non-interference proof + SSA effect inventory checked in Coq + race-detector stress run (support)"),
 'C20': dict(
    text="Invariant over the executor model (cancel_run): once the context has been observed done, every call that polled returns the cancellation; entry-point corollaries for all five entry points, "
         "silent and verbose, every poll index; on the implementation: cancellation at EVERY poll k of every pool case, both causes, all entry points, and the poll count after cancellation.",
    note="The raise-site inventory pins the class of the cancellation error (ErrExecution, not ErrVerbose).",
    technique="Coq invariant proof on the executor model + exhaustive every-poll cancellation sweep on the implementation"),
}


def main():
    hooks_commits = []
    m = {
        'version': 1,
        'setup_cmd': 'bin/setup',
        'hooks': {
            'guard': 'verif',
            'enable': 'go build -tags verif ./...   (no hook files are needed: the harness uses the public API, reflection for two unexported fields, and a poll-counting context.Context)',
            'baseline_off_cmd': 'cd /repo && GOFLAGS=-mod=mod GOPROXY=off GOSUMDB=off GOTOOLCHAIN=local go test -vet=off -count=1 ./...',
            'source_commits': hooks_commits,
            'add_only': True,
        },
        'engines': [
            {'name': 'coq', 'path': 'coq/', 'serves_properties': sorted(CHECKS), 'kind_free_text': 'Coq 8.16.1 development: model (coq/model), specification (coq/spec), proofs (coq/proofs), property theorem files (coq/props), generated tables (coq/gen)'},
            {'name': 'driver', 'path': 'driver/', 'serves_properties': ['C01', 'C05', 'C06', 'C07', 'C08', 'C09', 'C10', 'C11', 'C12', 'C13', 'C14', 'C15', 'C16', 'C20'], 'kind_free_text': 'OCaml driver linked with the model and specification extracted from Coq; compares with the implementation and evaluates the property oracles'},
            {'name': 'harness', 'path': 'harness/', 'serves_properties': ['C01', 'C05', 'C06', 'C07', 'C08', 'C09', 'C10', 'C11', 'C12', 'C13', 'C14', 'C15', 'C16', 'C20'], 'kind_free_text': 'Go program built against /repo\'s working tree: generators, runs of the five entry points, poll-counting context'},
            {'name': 'tables', 'path': 'tools/tables/', 'serves_properties': sorted(CHECKS), 'kind_free_text': 'translators regenerating coq/gen/*.v (raise sites, keywords, priorities, operator names, layouts) from /repo'},
            {'name': 'parsevec', 'path': 'tools/parsevec/', 'serves_properties': ['C02', 'C03', 'C04'], 'kind_free_text': 'differential test and search legs of the parser-side model'},
            {'name': 'dtvec', 'path': 'tools/dtvec/', 'serves_properties': ['C17', 'C18'], 'kind_free_text': 'datetime vectors evaluated in Coq against path/types and path/exec'},
            {'name': 'effects', 'path': 'tools/effects/', 'serves_properties': ['C19'], 'kind_free_text': 'go/ssa effect inventory; harness-race/ is the supporting race-detector run'},
        ],
        'checks': [],
        'not_applicable': [],
        'notes': 'All twenty properties are claimed. Known findings (genuine defects recorded rather than repaired) are in known_findings.json; 20 defects were repaired by fix: commits in /repo.',
    }
    for pid in sorted(CHECKS):
        c = CHECKS[pid]
        m['checks'].append({
            'property_id': pid,
            'quick_cmd': 'bin/check %s --tier quick' % pid,
            'thorough_cmd': 'bin/check %s --tier thorough' % pid,
            'evidence_file': 'evidence/%s.json' % pid,
            'replay_cmd_template': 'bin/check %s --replay {path}' % pid,
            'engine': 'coq',
            'level_claimed': {'category': 'proof', 'text': c['text'], 'design_ref': 'DESIGN.md section 6 %s' % pid},
            'level_note': COMMON_NOTE + c['note'],
            'technique': c['technique'],
        })
    with open(os.path.join(ROOT, 'MANIFEST.json'), 'w') as f:
        json.dump(m, f, indent=1)
    print('wrote MANIFEST.json with', len(m['checks']), 'checks')


if __name__ == '__main__':
    main()
