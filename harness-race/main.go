// sjrace: the supporting run of property C19 (not a proof).  Built with `go build -race`.
//
//		sjrace -n 8 -m 200 [-seed 1] [-hist 40] [-out summary.json] [-replay call.json]
//
//	 1. parses a pool of paths covering every node kind;
//	 2. computes every call's result ALONE: on a freshly parsed *Path, on private deep copies of
//	    the document and of the variable map (canonical string: items with sorted object keys,
//	    .keyvalue() ids masked, or the error class and message);
//	 3. runs N goroutines x M calls on SHARED *Path values, shared documents and shared variable
//	    maps -- Query, First, Exists, Match, ExistsOrMatch, String, MarshalText, IsPredicate,
//	    PgIndexOperator, and Parse of the same sources concurrently -- comparing each result with
//	    the isolated one;
//	 4. repeats and reorders sequential histories on one *Path;
//	 5. deep-compares the shared documents and variable maps before and after.
//
// Exit 0 and a JSON summary on success.  Exit 1 with details on a mismatch or a mutated input.
// The race detector makes the process exit 66 and prints "WARNING: DATA RACE".
package main

import (
	"context"
	"encoding/json"
	"errors"
	"flag"
	"fmt"
	"math/rand"
	"os"
	"sort"
	"strings"
	"sync"
	"sync/atomic"
	"time"

	"github.com/theory/sqljson/path"
	"github.com/theory/sqljson/path/exec"
	"github.com/theory/sqljson/path/types"
)

// ---------------------------------------------------------------------------
// the pool
// ---------------------------------------------------------------------------

// every node kind: root/current/last constants, keys, wildcards, .** with and without levels,
// subscripts, filters (nested), like_regex with each flag, starts with, exists, is unknown,
// boolean connectives, comparisons, arithmetic (binary and unary), variables, literals, every
// item method, datetime methods with and without time zone, .keyvalue(), strict and lax, and
// predicate check expressions.
var pathSrcs = []string{
	`$`,
	`$.a`,
	`$.arr[*]`,
	`$.arr[0]`,
	`$.arr[last]`,
	`$.arr[1 to last]`,
	`$.arr[0, 2]`,
	`strict $.arr[10]`,
	`$.obj.*`,
	`$.**`,
	`$.**{2}`,
	`$.**{1 to 2}.n`,
	`$.**{2 to last}`,
	`$.arr[*] ? (@ > 2)`,
	`$.people[*] ? (@.age >= $min && @.age < $max).name`,
	`$.people[*] ? (exists(@.tags[*] ? (@ == "x"))).name`,
	`$.people[*] ? (@.tags[*] ? (@ starts with "y") == "yy").age`,
	`$.people[*] ? (!(@.age > 30) || @.name == "carol").name`,
	`$.people[*] ? ((@.age > "a") is unknown).name`,
	`$.people[*].name ? (@ like_regex "^a")`,
	`$.people[*].name ? (@ like_regex "^A" flag "i")`,
	`$.text[*] ? (@ like_regex "a.c" flag "s")`,
	`$.text[*] ? (@ like_regex "^b" flag "m")`,
	`$.text[*] ? (@ like_regex "a  c" flag "x")`, // not implemented by the library today: skipped when it does not parse
	`$.text[*] ? (@ like_regex "^B" flag "im")`,
	`$.text[*] ? (@ like_regex "a.c" flag "q")`,
	`$.text[*] ? (@ like_regex "A.C" flag "is")`,
	`$.people[*].name ? (@ starts with $pfx)`,
	`$.num.a + $.num.b * 2 - $.num.c / 4 % 3`,
	`-$.arr[*]`,
	`+$.num.a`,
	`$.arr[*] * $factor`,
	`$.num.a / $.num.zero`,
	`$.arr.size()`,
	`$.**.type()`,
	`$.num.f.ceiling()`,
	`$.num.f.floor()`,
	`$.num.neg.abs()`,
	`$.num.s.double()`,
	`$.num.s.number()`,
	`$.num.f.integer()`,
	`$.num.s.bigint()`,
	`$.num.f.decimal(4, 1)`,
	`$.num.a.string()`,
	`$.flags[*].boolean()`,
	`$.obj.keyvalue()`,
	`$.obj.keyvalue().value`,
	`$.people[*].keyvalue().key`,
	`$.dt.ts.datetime()`,
	`$.dt.d.date()`,
	`$.dt.t.time()`,
	`$.dt.t.time(2)`,
	`$.dt.ttz.time_tz()`,
	`$.dt.ts.timestamp()`,
	`$.dt.tstz.timestamp_tz()`,
	`$.dt.tstz.timestamp_tz(3)`,
	`$.dt.ts.timestamp_tz()`,
	`$.dt.t.time_tz()`,
	`$.dt.tstz.timestamp()`,
	`$.dt.d.datetime() < $.dt.tstz.datetime()`,
	`$.dt.all[*] ? (@.datetime() < "2024-06-01".datetime())`,
	`$.dt.t.time() < $.dt.ttz.time_tz()`,
	`$.a == 1`,
	`$.a > $.num.b`,
	`exists($.people[*] ? (@.age > 40))`,
	`$.people[0].name starts with "al"`,
	`$.missing`,
	`strict $.missing`,
	`strict $.arr[*].x`,
	`lax $.arr.x`,
	`$.arr[$idx]`,
	`$.arr[$.num.a]`,
	`$v.deep.k`,
	`$v.list[*] ? (@ > $.a)`,
	`$.str.string().type()`,
	`null`,
	`"lit"`,
	`1.5`,
	`true`,
	`$.people[*] ? (@.age > 20) ? (@.tags.size() > 1).name`,
	`$.arr[*] ? (@ > $.arr[0] && @ < $.arr[last])`,
	`$.dt.ts.datetime().type()`,
	`$.people.size() > 2`,
	`$.obj.*.size()`,
	`$.nested[*][*]`,
	`$.nested[*] ? (@[*] > 3)`,
}

func docs() []any {
	people := []any{
		map[string]any{"name": "alice", "age": float64(31), "tags": []any{"x", "yy"}},
		map[string]any{"name": "Bob", "age": int64(25), "tags": []any{"y"}},
		map[string]any{"name": "carol", "age": json.Number("47"), "tags": []any{"x", "yy", "z"}},
		map[string]any{"name": "anna", "age": "n/a", "tags": []any{}},
	}
	big := map[string]any{
		"a":      float64(1),
		"str":    "hello",
		"arr":    []any{float64(1), float64(2), float64(3), int64(4), json.Number("5")},
		"obj":    map[string]any{"k1": float64(1), "k2": []any{float64(1), float64(2)}, "k3": map[string]any{"n": "deep"}},
		"people": people,
		"text":   []any{"abc", "a\nc", "x\nby", "a  c", "ac", "a.c", "ABC"},
		"num": map[string]any{"a": float64(2), "b": int64(3), "c": json.Number("8"), "zero": float64(0), "f": 2.5,
			"neg": float64(-7), "s": "12.25"},
		"flags":  []any{true, "false", float64(1), "t"},
		"nested": []any{[]any{float64(1), float64(2)}, []any{float64(3), []any{float64(4), float64(5)}}},
		"dt": map[string]any{
			"d": "2024-03-10", "t": "12:34:56.789", "ttz": "12:34:56+02:00", "ts": "2024-03-10T12:34:56",
			"tstz": "2024-03-10T12:34:56.123456+05:30",
			"all":  []any{"2024-03-10", "2024-07-01T00:00:00", "2023-12-31T23:59:59+01:00", "12:00:00", "garbage"},
		},
	}
	arr := []any{float64(10), map[string]any{"a": float64(5), "arr": []any{"p", "q"}, "n": float64(9)}, []any{float64(1), []any{float64(2), map[string]any{"n": "x"}}}, "s", nil, true}
	small := map[string]any{"a": "1", "arr": []any{}, "obj": map[string]any{}, "people": []any{}, "num": map[string]any{"a": "x"}, "dt": map[string]any{"t": "25:00:00"}}
	return []any{big, arr, small, float64(42), "scalar", nil}
}

// regrow deep-copies v, building every array element by element with append.
func regrow(v any) any {
	switch x := v.(type) {
	case []any:
		var out []any
		for _, e := range x {
			out = append(out, regrow(e))
		}
		if out == nil {
			out = []any{}
		}
		return out
	case map[string]any:
		out := make(map[string]any, len(x))
		for k, e := range x {
			out[k] = regrow(e)
		}
		return out
	default:
		return v
	}
}

// arrayHeads collects the address of the first element of every non-empty array in v.
func arrayHeads(v any, acc map[*any]string, where string) {
	switch x := v.(type) {
	case []any:
		if len(x) > 0 {
			acc[&x[0]] = where
		}
		for i, e := range x {
			arrayHeads(e, acc, fmt.Sprintf("%s[%d]", where, i))
		}
	case map[string]any:
		for k, e := range x {
			arrayHeads(e, acc, where+"."+k)
		}
	}
}

func varsets() []exec.Vars {
	return []exec.Vars{
		nil,
		{"min": float64(26), "max": float64(50), "pfx": "a", "factor": float64(3), "idx": float64(1),
			"v": map[string]any{"deep": map[string]any{"k": []any{float64(1), "two"}}, "list": []any{float64(0), float64(1), float64(2)}}},
		{"min": int64(0), "max": json.Number("30"), "pfx": "B", "factor": "notanumber", "idx": float64(9),
			"v": []any{float64(7)}},
	}
}

var zones = []string{"", "UTC", "America/New_York", "Asia/Kolkata"}

type optSpec struct {
	Vars   int    `json:"vars"`
	Silent bool   `json:"silent"`
	TZ     bool   `json:"tz"`
	Zone   string `json:"zone"`
}

var entryNames = []string{"Query", "First", "Exists", "Match", "ExistsOrMatch"}

type callSpec struct {
	Path  int     `json:"path"`
	Doc   int     `json:"doc"`
	Entry string  `json:"entry"`
	Opt   optSpec `json:"opt"`
}

func (c callSpec) key() string {
	return fmt.Sprintf("%d|%d|%s|%d|%v|%v|%s", c.Path, c.Doc, c.Entry, c.Opt.Vars, c.Opt.Silent, c.Opt.TZ, c.Opt.Zone)
}

// ---------------------------------------------------------------------------
// canonical results
// ---------------------------------------------------------------------------

func canon(v any, sb *strings.Builder) {
	switch x := v.(type) {
	case nil:
		sb.WriteString("null")
	case map[string]any:
		keys := make([]string, 0, len(x))
		for k := range x {
			keys = append(keys, k)
		}
		sort.Strings(keys)
		_, hasID := x["id"]
		_, hasKey := x["key"]
		_, hasVal := x["value"]
		kv := len(x) == 3 && hasID && hasKey && hasVal
		sb.WriteByte('{')
		for i, k := range keys {
			if i > 0 {
				sb.WriteByte(',')
			}
			fmt.Fprintf(sb, "%q:", k)
			if kv && k == "id" {
				sb.WriteString("<id>") // .keyvalue() ids derive from addresses
			} else {
				canon(x[k], sb)
			}
		}
		sb.WriteByte('}')
	case exec.Vars:
		canon(map[string]any(x), sb)
	case []any:
		sb.WriteByte('[')
		for i, e := range x {
			if i > 0 {
				sb.WriteByte(',')
			}
			canon(e, sb)
		}
		sb.WriteByte(']')
	case string:
		fmt.Fprintf(sb, "%q", x)
	case fmt.Stringer:
		fmt.Fprintf(sb, "%T(%s)", x, x.String())
	default:
		fmt.Fprintf(sb, "%T(%v)", x, x)
	}
}

func canonStr(v any) string {
	var sb strings.Builder
	canon(v, &sb)
	return sb.String()
}

func errClass(err error) string {
	switch {
	case err == nil:
		return ""
	case errors.Is(err, exec.NULL):
		return "NULL"
	case errors.Is(err, exec.ErrVerbose):
		return "ErrVerbose"
	case errors.Is(err, exec.ErrInvalid):
		return "ErrInvalid"
	case errors.Is(err, exec.ErrExecution):
		return "ErrExecution"
	}
	return "other"
}

// unordered: the order of the items depends on the iteration order of a Go map
func unordered(src string) bool {
	return strings.Contains(src, ".*") || strings.Contains(src, ".**")
}

type outcome struct {
	Items []string `json:"items,omitempty"` // canonical items (Query), in order
	Value string   `json:"value,omitempty"` // First / Exists / Match
	Err   string   `json:"err,omitempty"`   // class: message
	Panic string   `json:"panic,omitempty"`
}

func (o outcome) String() string {
	b, _ := json.Marshal(o)
	return string(b)
}

func sortedCopy(xs []string) []string {
	ys := append([]string(nil), xs...)
	sort.Strings(ys)
	return ys
}

// same compares an observed outcome with the isolated one.  For a path whose item order
// depends on map iteration: Query is compared as a multiset, First must be one of the isolated
// Query's items, and only the class of an error is compared.
func same(spec callSpec, got, want outcome, wantQueryItems []string) bool {
	if got.Panic != want.Panic {
		return false
	}
	if !unordered(pathSrcs[spec.Path]) {
		return got.String() == want.String()
	}
	cls := func(e string) string { return strings.SplitN(e, ":", 2)[0] }
	if cls(got.Err) != cls(want.Err) {
		return false
	}
	switch spec.Entry {
	case "Query":
		return strings.Join(sortedCopy(got.Items), "\x00") == strings.Join(sortedCopy(want.Items), "\x00")
	case "First":
		if got.Err != "" {
			return true
		}
		if wantQueryItems == nil {
			return true // the isolated Query failed on some member; First may stop before it
		}
		if len(wantQueryItems) == 0 {
			return got.Value == "null"
		}
		for _, it := range wantQueryItems {
			if it == got.Value {
				return true
			}
		}
		return false
	}
	return got.Value == want.Value
}

func doCall(p *path.Path, entry string, doc any, vars exec.Vars, o optSpec) (out outcome) {
	defer func() {
		if r := recover(); r != nil {
			out = outcome{Panic: fmt.Sprint(r)}
		}
	}()
	ctx := context.Background()
	if o.Zone != "" {
		loc, err := time.LoadLocation(o.Zone)
		if err != nil {
			panic(err)
		}
		ctx = types.ContextWithTZ(ctx, loc)
	}
	var opts []exec.Option
	if vars != nil {
		opts = append(opts, exec.WithVars(vars))
	}
	if o.Silent {
		opts = append(opts, exec.WithSilent())
	}
	if o.TZ {
		opts = append(opts, exec.WithTZ())
	}
	var err error
	switch entry {
	case "Query":
		var items []any
		items, err = p.Query(ctx, doc, opts...)
		if err == nil {
			out.Items = make([]string, 0, len(items))
			for _, it := range items {
				out.Items = append(out.Items, canonStr(it))
			}
		}
	case "First":
		var v any
		v, err = p.First(ctx, doc, opts...)
		if err == nil {
			out.Value = canonStr(v)
		}
	case "Exists":
		var b bool
		b, err = p.Exists(ctx, doc, opts...)
		out.Value = fmt.Sprint(b)
	case "Match":
		var b bool
		b, err = p.Match(ctx, doc, opts...)
		out.Value = fmt.Sprint(b)
	case "ExistsOrMatch":
		var b bool
		b, err = p.ExistsOrMatch(ctx, doc, opts...)
		out.Value = fmt.Sprint(b)
	default:
		panic("unknown entry " + entry)
	}
	if err != nil {
		out.Err = errClass(err) + ": " + err.Error()
	}
	return out
}

// ---------------------------------------------------------------------------
// main
// ---------------------------------------------------------------------------

type mismatch struct {
	Phase   string   `json:"phase"`
	Call    callSpec `json:"call"`
	PathSrc string   `json:"path_src"`
	Doc     string   `json:"doc"`
	Vars    string   `json:"vars"`
	Got     outcome  `json:"got"`
	Want    outcome  `json:"want"`
	Note    string   `json:"note,omitempty"`
}

type summary struct {
	Goroutines         int        `json:"goroutines"`
	CallsPerGoroutine  int        `json:"calls_per_goroutine"`
	Seed               int64      `json:"seed"`
	Paths              int        `json:"paths"`
	SkippedPaths       []string   `json:"skipped_unparsable_paths,omitempty"`
	Docs               int        `json:"docs"`
	Varsets            int        `json:"varsets"`
	IsolatedCalls      int        `json:"isolated_calls"`
	DistinctNontrivial int        `json:"distinct_nontrivial"`
	ConcurrentCalls    int64      `json:"concurrent_calls"`
	ConcurrentStrings  int64      `json:"concurrent_string_calls"`
	ConcurrentParses   int64      `json:"concurrent_parses"`
	HistoryCalls       int        `json:"history_calls"`
	Calls              int64      `json:"calls"`
	Mismatches         int        `json:"mismatches"`
	InputsMutated      int        `json:"inputs_mutated"`
	UnstableAlone      int        `json:"unstable_alone"`
	First              []mismatch `json:"first_mismatches,omitempty"`
	Samples            []any      `json:"samples"`
	WallS              float64    `json:"wall_s"`
}

func main() {
	n := flag.Int("n", 8, "goroutines")
	m := flag.Int("m", 200, "calls per goroutine")
	hist := flag.Int("hist", 40, "sequential histories per path")
	seed := flag.Int64("seed", 1, "seed")
	outFile := flag.String("out", "", "write the JSON summary here too")
	replay := flag.String("replay", "", "a JSON callSpec (or a replay file with .call): run it alone and shared, print both")
	flag.Parse()
	t0 := time.Now()

	// 1. the pool (a source the library rejects is skipped and reported, so that the run does
	// not depend on which optional syntax the current tree implements)
	var skipped []string
	var live []string
	for _, src := range pathSrcs {
		if _, err := path.Parse(src); err != nil {
			skipped = append(skipped, src)
			continue
		}
		live = append(live, src)
	}
	pathSrcs = live
	hotPaths = computeHot()
	if len(pathSrcs) < 40 {
		fmt.Fprintf(os.Stderr, "sjrace: only %d pool paths parse (skipped: %q)\n", len(pathSrcs), skipped)
		os.Exit(2)
	}
	shared := make([]*path.Path, len(pathSrcs))
	strs := make([]string, len(pathSrcs))
	for i, src := range pathSrcs {
		p, err := path.Parse(src)
		if err != nil {
			fmt.Fprintf(os.Stderr, "sjrace: pool path %d %q does not parse: %v\n", i, src, err)
			os.Exit(2)
		}
		shared[i] = p
	}
	// the shared inputs are rebuilt the way encoding/json builds them: arrays grown by append, so
	// that they have spare capacity like every decoded document (a literal []any{..} has none)
	sharedDocs := docs()
	for i := range sharedDocs {
		sharedDocs[i] = regrow(sharedDocs[i])
	}
	sharedVars := varsets()
	for i := range sharedVars {
		if sharedVars[i] != nil {
			sharedVars[i] = exec.Vars(regrow(map[string]any(sharedVars[i])).(map[string]any))
		}
	}
	docBefore := make([]string, len(sharedDocs))
	for i, d := range sharedDocs {
		docBefore[i] = canonStr(d)
	}
	varBefore := make([]string, len(sharedVars))
	for i, v := range sharedVars {
		varBefore[i] = canonStr(map[string]any(v))
	}

	// the call space
	var optSpecs []optSpec
	for v := range sharedVars {
		for _, silent := range []bool{false, true} {
			for _, tz := range []bool{false, true} {
				zone := ""
				if tz {
					zone = zones[(v+boolInt(silent))%len(zones)+0]
					if zone == "" {
						zone = "America/New_York"
					}
				}
				optSpecs = append(optSpecs, optSpec{Vars: v, Silent: silent, TZ: tz, Zone: zone})
			}
		}
	}
	var specs []callSpec
	for pi := range pathSrcs {
		for di := range sharedDocs {
			for _, e := range entryNames {
				for _, o := range optSpecs {
					specs = append(specs, callSpec{Path: pi, Doc: di, Entry: e, Opt: o})
				}
			}
		}
	}

	if *replay != "" {
		os.Exit(runReplay(*replay, shared, sharedDocs, sharedVars))
	}

	// 2. every call ALONE: fresh parse, private copies of the document and the variables
	isolated := make(map[string]outcome, len(specs))
	queryItems := map[string][]string{} // isolated Query items per (path,doc,opt), for First on unordered paths
	distinct := map[string]bool{}
	sum := summary{Goroutines: *n, CallsPerGoroutine: *m, Seed: *seed, Paths: len(pathSrcs), SkippedPaths: skipped, Docs: len(sharedDocs), Varsets: len(sharedVars)}
	var mm []mismatch
	var mmMu sync.Mutex
	report := func(x mismatch) {
		mmMu.Lock()
		mm = append(mm, x)
		mmMu.Unlock()
	}
	describe := func(phase string, c callSpec, got, want outcome, note string) mismatch {
		return mismatch{Phase: phase, Call: c, PathSrc: pathSrcs[c.Path], Doc: docBefore[c.Doc], Vars: varBefore[c.Opt.Vars], Got: got, Want: want, Note: note}
	}
	alone := func(c callSpec) outcome {
		p, err := path.Parse(pathSrcs[c.Path])
		if err != nil {
			panic(err)
		}
		return doCall(p, c.Entry, docs()[c.Doc], varsets()[c.Opt.Vars], c.Opt)
	}
	for _, c := range specs {
		o := alone(c)
		isolated[c.key()] = o
		sum.IsolatedCalls++
		if c.Entry == "Query" {
			k := callSpec{Path: c.Path, Doc: c.Doc, Entry: "Query", Opt: c.Opt}.key()
			if o.Err == "" && o.Panic == "" {
				queryItems[k] = append([]string{}, o.Items...)
			}
		}
		if o.Err != "" || o.Panic != "" || len(o.Items) > 0 || (o.Value != "" && o.Value != "null" && o.Value != "false") {
			distinct[c.key()] = true
		}
	}
	sum.DistinctNontrivial = len(distinct)
	for i, p := range shared {
		s, err := alonesString(pathSrcs[i])
		if err != nil {
			panic(err)
		}
		strs[i] = s
		_ = p
	}
	// determinism alone: the isolated result, recomputed, is the same
	rng := rand.New(rand.NewSource(*seed))
	for i := 0; i < len(specs)/4; i++ {
		c := specs[rng.Intn(len(specs))]
		o := alone(c)
		sum.IsolatedCalls++
		qk := callSpec{Path: c.Path, Doc: c.Doc, Entry: "Query", Opt: c.Opt}.key()
		if !same(c, o, isolated[c.key()], queryItems[qk]) {
			sum.UnstableAlone++
			report(describe("alone-twice", c, o, isolated[c.key()], "the same call, alone on fresh inputs, returned two different results"))
		}
	}

	// 3. N goroutines x M calls on the shared paths, documents and variables
	var wg sync.WaitGroup
	var nCalls, nStr, nParse int64
	start := make(chan struct{})
	for g := 0; g < *n; g++ {
		wg.Add(1)
		go func(g int) {
			defer wg.Done()
			r := rand.New(rand.NewSource(*seed*1000003 + int64(g)))
			<-start
			// goroutines work on overlapping windows of the pool so that the same node is hot
			// in several goroutines at once
			for i := 0; i < *m; i++ {
				var c callSpec
				if r.Intn(3) == 0 {
					c = specs[r.Intn(len(specs))]
				} else {
					// a hot subset: regex, datetime, keyvalue and variable paths
					pi := hotPaths[r.Intn(len(hotPaths))]
					c = callSpec{Path: pi, Doc: r.Intn(3), Entry: entryNames[r.Intn(len(entryNames))], Opt: optSpecs[r.Intn(len(optSpecs))]}
				}
				got := doCall(shared[c.Path], c.Entry, sharedDocs[c.Doc], sharedVars[c.Opt.Vars], c.Opt)
				atomic.AddInt64(&nCalls, 1)
				qk := callSpec{Path: c.Path, Doc: c.Doc, Entry: "Query", Opt: c.Opt}.key()
				if want := isolated[c.key()]; !same(c, got, want, queryItems[qk]) {
					report(describe("concurrent", c, got, want, fmt.Sprintf("goroutine %d call %d", g, i)))
				}
				switch r.Intn(6) {
				case 0:
					pi := r.Intn(len(shared))
					s := shared[pi].String()
					b, _ := shared[pi].MarshalText()
					_ = shared[pi].IsPredicate()
					_ = shared[pi].PgIndexOperator()
					atomic.AddInt64(&nStr, 1)
					if s != strs[pi] || string(b) != strs[pi] {
						report(mismatch{Phase: "concurrent-string", Call: callSpec{Path: pi, Entry: "String"}, PathSrc: pathSrcs[pi],
							Got: outcome{Value: s}, Want: outcome{Value: strs[pi]}})
					}
				case 1:
					pi := r.Intn(len(shared))
					p, err := path.Parse(pathSrcs[pi])
					atomic.AddInt64(&nParse, 1)
					if err != nil || p.String() != strs[pi] {
						report(mismatch{Phase: "concurrent-parse", Call: callSpec{Path: pi, Entry: "Parse"}, PathSrc: pathSrcs[pi],
							Got: outcome{Value: fmt.Sprint(p, err)}, Want: outcome{Value: strs[pi]}})
						break
					}
					var q path.Path
					if err := q.UnmarshalText([]byte(strs[pi])); err != nil || q.String() != strs[pi] {
						report(mismatch{Phase: "concurrent-unmarshal", Call: callSpec{Path: pi, Entry: "UnmarshalText"}, PathSrc: pathSrcs[pi],
							Got: outcome{Value: fmt.Sprint(q.String(), err)}, Want: outcome{Value: strs[pi]}})
					}
					// and a query on the freshly parsed path, against the shared document
					c2 := callSpec{Path: pi, Doc: r.Intn(len(sharedDocs)), Entry: "Query", Opt: optSpecs[r.Intn(len(optSpecs))]}
					got := doCall(p, c2.Entry, sharedDocs[c2.Doc], sharedVars[c2.Opt.Vars], c2.Opt)
					atomic.AddInt64(&nCalls, 1)
					if want := isolated[c2.key()]; !same(c2, got, want, queryItems[c2.key()]) {
						report(describe("concurrent-fresh-parse", c2, got, want, ""))
					}
				}
			}
		}(g)
	}
	close(start)
	wg.Wait()
	sum.ConcurrentCalls, sum.ConcurrentStrings, sum.ConcurrentParses = nCalls, nStr, nParse

	// 3b. first use of a freshly parsed *Path by all goroutines at once: String / MarshalText / Query
	// released by one barrier, so that anything the first call builds lazily is built under contention
	for round := 0; round < 1+*hist/20; round++ {
		for pi := range pathSrcs {
			fresh, err := path.Parse(pathSrcs[pi])
			if err != nil {
				continue
			}
			gate := make(chan struct{})
			var wg2 sync.WaitGroup
			for g := 0; g < *n; g++ {
				wg2.Add(1)
				go func(g int) {
					defer wg2.Done()
					<-gate
					var s string
					if g%3 == 2 {
						b, _ := fresh.MarshalText()
						s = string(b)
					} else {
						s = fresh.String()
					}
					atomic.AddInt64(&nStr, 1)
					if s != strs[pi] {
						report(mismatch{Phase: "first-use-string", Call: callSpec{Path: pi, Entry: "String"}, PathSrc: pathSrcs[pi],
							Got: outcome{Value: s}, Want: outcome{Value: strs[pi]}, Note: fmt.Sprintf("goroutine %d of %d calling String on a freshly parsed *Path at once", g, *n)})
					}
				}(g)
			}
			close(gate)
			wg2.Wait()
		}
	}
	sum.ConcurrentStrings = nStr

	// 3c. a result never hands out the shared document's own array: the slice Query returns must not
	// start at an element of an array inside the shared document or variables (the caller owns the
	// result; appending to it would write into the shared input)
	heads := map[*any]string{}
	for i, d := range sharedDocs {
		arrayHeads(d, heads, fmt.Sprintf("doc%d:$", i))
	}
	for i, v := range sharedVars {
		arrayHeads(map[string]any(v), heads, fmt.Sprintf("vars%d:", i))
	}
	for _, c := range specs {
		if c.Entry != "Query" || c.Opt.Silent || c.Opt.TZ {
			continue
		}
		var vs []exec.Option
		if sharedVars[c.Opt.Vars] != nil {
			vs = append(vs, exec.WithVars(sharedVars[c.Opt.Vars]))
		}
		res, err := func() (r []any, e error) {
			defer func() {
				if x := recover(); x != nil {
					e = fmt.Errorf("panic: %v", x)
				}
			}()
			return shared[c.Path].Query(context.Background(), sharedDocs[c.Doc], vs...)
		}()
		sum.HistoryCalls++
		if err == nil && len(res) > 0 {
			if where, ok := heads[&res[0]]; ok {
				report(describe("result-aliases-input", c, outcome{Value: "the returned slice is the array at " + where}, isolated[c.key()],
					"Query returned the shared input's own backing array as its result list"))
			}
		}
	}

	// 4. sequential histories on one *Path: random, reversed, shuffled, repeated
	for pi := range shared {
		var mine []callSpec
		for _, c := range specs {
			if c.Path == pi {
				mine = append(mine, c)
			}
		}
		check := func(phase string, h []callSpec) {
			for k, c := range h {
				got := doCall(shared[pi], c.Entry, sharedDocs[c.Doc], sharedVars[c.Opt.Vars], c.Opt)
				sum.HistoryCalls++
				qk := callSpec{Path: c.Path, Doc: c.Doc, Entry: "Query", Opt: c.Opt}.key()
				if want := isolated[c.key()]; !same(c, got, want, queryItems[qk]) {
					report(describe(phase, c, got, want, fmt.Sprintf("position %d of a history of %d calls on one *Path", k, len(h))))
				}
			}
			if s := shared[pi].String(); s != strs[pi] {
				report(mismatch{Phase: phase + "-string", Call: callSpec{Path: pi, Entry: "String"}, PathSrc: pathSrcs[pi], Got: outcome{Value: s}, Want: outcome{Value: strs[pi]}})
			}
		}
		for hI := 0; hI < *hist; hI++ {
			l := 2 + rng.Intn(6)
			h := make([]callSpec, l)
			for k := range h {
				h[k] = mine[rng.Intn(len(mine))]
			}
			check("history", h)
			rev := make([]callSpec, l)
			for k := range h {
				rev[l-1-k] = h[k]
			}
			check("history-reversed", rev)
			rng.Shuffle(l, func(a, b int) { h[a], h[b] = h[b], h[a] })
			check("history-shuffled", h)
			rep := []callSpec{h[0], h[0], h[0], h[l-1], h[0]}
			check("history-repeated", rep)
		}
	}

	// 5. the shared inputs are untouched
	for i, d := range sharedDocs {
		if s := canonStr(d); s != docBefore[i] {
			sum.InputsMutated++
			report(mismatch{Phase: "input-mutated", Call: callSpec{Doc: i}, Doc: docBefore[i], Got: outcome{Value: s}, Want: outcome{Value: docBefore[i]}, Note: "shared document changed"})
		}
	}
	for i, v := range sharedVars {
		if s := canonStr(map[string]any(v)); s != varBefore[i] {
			sum.InputsMutated++
			report(mismatch{Phase: "input-mutated", Call: callSpec{Opt: optSpec{Vars: i}}, Vars: varBefore[i], Got: outcome{Value: s}, Want: outcome{Value: varBefore[i]}, Note: "shared variable map changed"})
		}
	}

	// summary
	sum.Mismatches = len(mm)
	if len(mm) > 5 {
		sum.First = mm[:5]
	} else {
		sum.First = mm
	}
	sum.Calls = int64(sum.IsolatedCalls) + sum.ConcurrentCalls + sum.ConcurrentStrings + sum.ConcurrentParses + int64(sum.HistoryCalls)
	srng := rand.New(rand.NewSource(*seed + 7))
	var keys []string
	for k := range distinct {
		keys = append(keys, k)
	}
	sort.Strings(keys)
	byKey := map[string]callSpec{}
	for _, c := range specs {
		byKey[c.key()] = c
	}
	// samples: Query calls on the hot paths (regex, datetime, keyvalue, variables) first
	var hotKeys []string
	isHot := map[int]bool{}
	for _, h := range hotPaths {
		isHot[h] = true
	}
	for _, k := range keys {
		if c := byKey[k]; isHot[c.Path] && c.Entry == "Query" && c.Doc == 0 && len(isolated[k].Items) > 0 {
			hotKeys = append(hotKeys, k)
		}
	}
	for i := 0; i < 8 && len(keys) > 0; i++ {
		pool := keys
		if i < 5 && len(hotKeys) > 0 {
			pool = hotKeys
		}
		c := byKey[pool[srng.Intn(len(pool))]]
		sum.Samples = append(sum.Samples, map[string]any{
			"path": pathSrcs[c.Path], "doc": trunc(docBefore[c.Doc], 300), "vars": trunc(varBefore[c.Opt.Vars], 200), "entry": c.Entry,
			"silent": c.Opt.Silent, "with_tz": c.Opt.TZ, "zone": c.Opt.Zone, "isolated_result": isolated[c.key()],
		})
	}
	sum.WallS = time.Since(t0).Seconds()
	b, _ := json.MarshalIndent(sum, "", " ")
	if *outFile != "" {
		_ = os.WriteFile(*outFile, b, 0o644)
	}
	fmt.Println(string(b))
	if len(mm) > 0 {
		os.Exit(1)
	}
}

func boolInt(b bool) int {
	if b {
		return 1
	}
	return 0
}

func trunc(s string, n int) string {
	if len(s) > n {
		return s[:n] + "..."
	}
	return s
}

func alonesString(src string) (string, error) {
	p, err := path.Parse(src)
	if err != nil {
		return "", err
	}
	return p.String(), nil
}

// hotPaths: indexes of the pool paths that exercise regex, datetime, keyvalue, variables and
// nested filters (found by content so that reordering the pool cannot make this stale)
var hotPaths []int

func computeHot() []int {
	var out []int
	for i, s := range pathSrcs {
		if strings.Contains(s, "like_regex") || strings.Contains(s, "time") || strings.Contains(s, "date") ||
			strings.Contains(s, "keyvalue") || strings.Contains(s, "$v") || strings.Contains(s, "$min") || strings.Contains(s, "exists(") {
			out = append(out, i)
		}
	}
	return out
}

// runReplay: one call, alone and on the shared pool, printed
func runReplay(file string, shared []*path.Path, sharedDocs []any, sharedVars []exec.Vars) int {
	raw, err := os.ReadFile(file)
	if err != nil {
		fmt.Fprintln(os.Stderr, err)
		return 2
	}
	var wrap struct {
		Input *struct {
			Call *callSpec `json:"call"`
		} `json:"input"`
		Call *callSpec `json:"call"`
	}
	var c callSpec
	if err := json.Unmarshal(raw, &wrap); err == nil && (wrap.Call != nil || wrap.Input != nil && wrap.Input.Call != nil) {
		if wrap.Call != nil {
			c = *wrap.Call
		} else {
			c = *wrap.Input.Call
		}
	} else if err := json.Unmarshal(raw, &c); err != nil {
		fmt.Fprintln(os.Stderr, "replay file has no call:", err)
		return 2
	}
	if c.Path < 0 || c.Path >= len(pathSrcs) || c.Doc < 0 || c.Doc >= len(sharedDocs) || c.Opt.Vars < 0 || c.Opt.Vars >= len(sharedVars) {
		fmt.Fprintln(os.Stderr, "replay call out of range")
		return 2
	}
	p, err := path.Parse(pathSrcs[c.Path])
	if err != nil {
		fmt.Fprintln(os.Stderr, err)
		return 2
	}
	want := doCall(p, c.Entry, docs()[c.Doc], varsets()[c.Opt.Vars], c.Opt)
	bad := 0
	var wg sync.WaitGroup
	var mu sync.Mutex
	for g := 0; g < 8; g++ {
		wg.Add(1)
		go func() {
			defer wg.Done()
			for i := 0; i < 200; i++ {
				// neighbours on other nodes, then the call itself
				o := hotPaths[(i+g)%len(hotPaths)]
				_ = doCall(shared[o], "Query", sharedDocs[0], sharedVars[1], optSpec{Vars: 1})
				got := doCall(shared[c.Path], c.Entry, sharedDocs[c.Doc], sharedVars[c.Opt.Vars], c.Opt)
				if got.String() != want.String() && !unordered(pathSrcs[c.Path]) {
					mu.Lock()
					if bad == 0 {
						fmt.Printf("MISMATCH path=%q entry=%s got=%s want=%s\n", pathSrcs[c.Path], c.Entry, got, want)
					}
					bad++
					mu.Unlock()
				}
			}
		}()
	}
	wg.Wait()
	fmt.Printf("replay: path=%q entry=%s isolated=%s mismatches=%d\n", pathSrcs[c.Path], c.Entry, want, bad)
	if bad > 0 {
		return 1
	}
	return 0
}
